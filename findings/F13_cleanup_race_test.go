package device

import (
	"os"
	"sync"
	"testing"

	"github.com/gethiox/HIDI/internal/pkg/input"
	"github.com/gethiox/HIDI/internal/pkg/midi"
	"github.com/gethiox/HIDI/internal/pkg/midi/device/config"
	"github.com/holoplot/go-evdev"
)

// A reader that follows the locking protocol of the LED loop (open_rgb.go:497-660: hold eventProcessMutex while ranging
// over noteTracker) runs while ProcessEvents performs its disconnect clean-up.
func TestZZRaceCleanup(t *testing.T) {
	out := make(chan midi.Event, 4096)
	midiMap := map[evdev.EvCode]config.Key{}
	for c := evdev.EvCode(1); c < 100; c++ {
		midiMap[c] = config.Key{Note: byte(c)}
	}
	cfg := config.Config{KeyMappings: []config.KeyMapping{{Name: "m", Midi: map[string]map[evdev.EvCode]config.Key{"": midiMap},
		Analog: map[string]map[evdev.EvCode]config.Analog{}, Deadzones: map[string]map[evdev.EvCode]float64{}, DefaultDeadzone: map[string]float64{}}},
		CollisionMode: config.CollisionOff, Defaults: config.Defaults{Channel: 1, Velocity: 64}}
	d := NewDevice(input.Device{}, config.DeviceConfig{Config: cfg}, out, make(chan midi.Event), true, 0, make(chan os.Signal, 1))
	in := make(chan *input.InputEvent, 256)
	for c := evdev.EvCode(1); c < 100; c++ {
		in <- &input.InputEvent{Event: evdev.InputEvent{Type: evdev.EV_KEY, Code: c, Value: 1}}
	}
	close(in)
	stop := make(chan struct{})
	var wg sync.WaitGroup
	wg.Add(1)
	go func() {
		defer wg.Done()
		for {
			select {
			case <-stop:
				return
			default:
			}
			d.eventProcessMutex.Lock()
			n := 0
			for range d.noteTracker {
				n++
			}
			d.eventProcessMutex.Unlock()
		}
	}()
	d.ProcessEvents(in)
	close(stop)
	wg.Wait()
}
