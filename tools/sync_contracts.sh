#!/bin/bash
# Copies the contract mirror files from /verif/contracts into /repo (hook files behind build tag verif) and commits them there.
set -e
cd /verif/contracts
changed=0
for f in *.hvc.go; do
  rel=$(echo "${f%.hvc.go}" | tr '_' '/')
  dst=/repo/$rel/hv_contracts_verif.go
  if ! cmp -s "$f" "$dst"; then cp "$f" "$dst"; changed=1; fi
done
if [ $changed = 1 ]; then
  cd /repo && git add -A '*hv_contracts_verif.go' && git commit -qm "hook: hv contract files (comment-only, build tag verif)" && git log --oneline | head -1
else
  echo "contracts already in sync"
fi
