#!/bin/bash
# Runs every registered quick check on /repo (strict mode: contract files in /repo must equal the mirror) and prints one line each.
# usage: run_all_checks.sh [seed]   (VERIF_SEED; default: unset)
cd /verif
[ -n "${1:-}" ] && export VERIF_SEED=$1
for p in $(python3 -c "import json;print(' '.join(c['property_id'] for c in json.load(open('MANIFEST.json'))['checks']))"); do
  start=$(date +%s)
  out=$(./bin/hv check --property $p 2>&1); rc=$?
  echo "$p seed=${VERIF_SEED:-} rc=$rc $(( $(date +%s) - start ))s :: $(echo "$out" | grep -E '^(OK|VIOLATION|UNDECIDED|KNOWN)' | head -3 | cut -c1-160 | tr '\n' ' ')"
  echo "$out" | grep -E '^  obligation' | head -5
done
