#!/usr/bin/env python3
"""Regenerates /verif/MANIFEST.json from the table below (kept in one place so it stays valid)."""
import json, subprocess

TECH = "contract-based deductive verification: requires/ensures/loop invariants/frames as //@ comments on the real functions, VCs generated from go/ssa of /repo's working tree by hv, discharged by z3 / z3-new / cvc5"
NOTE = ("Trusted: go/ssa (x/tools v0.29.0) as the meaning of the source, hv's SSA->SMT translation (bit-vector ints, IEEE floats, typed heap), the three SMT solvers, "
        "assumed contracts of external callees (zap, fmt, sync, context, strings/strconv/regexp where used) listed in the evidence, counting axioms for finite maps, "
        "partial correctness, and the induction-over-history meta-argument. Logging is treated as effect-free.")

CLAIMS = {
 "C01": ("proof", "State invariant Inv (tracked notes only for held keys; counters count holders; everything sounding at the receiver has a holder) is proved to be preserved by every key/axis event step and by panic/actions, "
         "the disconnect clean-up loops of ProcessEvents are proved (loop invariants, map iteration with deletion) to leave both trackers empty and nothing sounding, and the quiescence statement is a lemma over Inv. For all inputs and all histories (by induction), all 4 collision modes.", "6 C01"),
 "C02": ("proof", "NoteOff/AnalogNoteOff postconditions pin the emitted Note Off to the tracker entry at entry (never to current octave/semitone/channel/mapping, which the frame keeps out); handleKEYEvent's release clauses hold for every relation between mapping at press and at release; every state action is proved to emit nothing (frame on the ghost output trace).", "6 C02"),
 "C03": ("proof", "NoteOn/NoteOff postconditions give the exact emitted sequence per collision mode as a function of the holder counter, and lemmas over the counting invariant identify counter==0 / counter==1 with first / last holder.", "6 C03"),
 "C04": ("proof", "NoteOn's postcondition is the statement's formula in 64-bit arithmetic (base + 12*octave + semitone, silent outside 0..127, channel (ch+offset) mod 16, configured velocity); each action's contract gives unit steps / saturation / pair reset, carried through invokeActionPress (dynamic dispatch proved against the table) and handleKEYEvent.", "6 C04"),
 "C05": ("proof", "One assertion attached to every send on the device's output channel (so new emission sites are covered): three bytes, status nibble Note Off/Note On/CC/Pitch Bend, data bytes <= 127. Discharged from the event constructors' contracts, wf (channel < 16, velocity, tracked pairs in range), cfgRanges, and for axis values from exact IEEE-754 stage facts (cut points) of handleABSEvent: normalised, centred, deadzone-shaped and flipped value ranges for ANY float64 deadzone, then 127*x -> int -> byte with amd64 conversion semantics. ParseData -> NewDevice -> ProcessEvents chain carries the configuration facts; cfgRanges of ParseData's result rests on its per-entry store-site assertions plus a write-once argument (stated, not a discharged postcondition).", "6 C05"),
 "C06": ("proof", "Exact-IEEE cut facts on handleABSEvent (proved for all int32 axis ranges and positions, every deadzone in [0,1)): normalised/centred/shaped/flipped value ranges and signs, physical end stops map to exactly +-1.0 and the rest position to exactly 0.0, and from there the transmitted bytes are exactly 127 / 0 / mid-scale / pitch-bend 8192 and 16383 (PitchBendEvent contract). 'Within one step' and 'monotonic' are relational float statements: bounded stand-in on the real code (labelled bounded).", "6 C06"),
 "C07": ("proof", "Postconditions of handleABSEvent for the two bidirectional arms: the first emitted event goes to the controller and channel of the side the shaped value is on, the other side gets an explicit 0 unless it is already marked zeroed, and with the invariant zeroedOK (a controller marked zeroed is 0 at the receiver; ghost receiver state updated at every send) at most one side is non-zero; the learning gate transmits nothing and leaves the marks untouched. Holds for every pre-state, hence for crossing the centre in one jump.", "6 C07"),
 "C08": ("proof", "Postconditions of handleABSEvent for the key-emulation arm in terms of the value the threshold switch sees: on once at >= 0.5 with the transposed configured note and channel, off below 0.49, unchanged in between, never both directions tracked, silent in an unconfigured direction; AnalogNoteOn/AnalogNoteOff contracts pin the Note Off to the tracked pair; ParseData's store-site assertions cover note_negative and the offsets.", "6 C08"),
 "C09": ("proof", "Zero-annotation safety sweep (nil dereference, nil-map update, index/slice bounds, division by zero, reachable panic) over ParseData, TomlKeyToEvCode, StringToNote, readDeviceConfig and LoadHIDIConfig with the decoder's output havocked to ANY value of the target struct (a superset of what any file content decodes to); all loops are range loops (structural termination). The third-party decoder is treated as 'returns any value, or panics': every call of it carries the obligation that the calling function has installed a deferred recover (it does panic on dates where numbers are expected - finding F17, repaired). That the decoder does not hang is assumed and exercised by the bounded stand-in c09_illtyped (real ParseData over ~20 000 near-valid files; labelled bounded).", "6 C09"),
 "C10": ("proof", "Per-entry fidelity and range clauses are assertions at the map-store sites of ParseData (selected by static map type), top-level fields, defaults (velocity 0 -> 64, channel 1..16, existing default mapping), colours and cfgOK are postconditions, name fidelity of the mapping list is a loop invariant; strict decoding is a typestate obligation on the Decode call. 'What the file states' is taken at the decoded struct (decoder assumed).", "6 C10"),
 "C11": ("proof", "StringToNote is proved equivalent to the 128-name specification (accepts exactly the valid names, returns the specified number) over a byte-level string model, with the regular expression's behaviour as an assumed contract pinned to the exact pattern (hv refuses it for any other pattern); NoteToPitch/NoteToOctave contracts plus round-trip/injectivity lemmas. A bounded stand-in runs the real functions over all short strings to guard that one assumption (labelled bounded).", "6 C11"),
 "C12": ("proof", "FindConfig's postcondition is the four-step lookup order per device type for every presence combination; the walk callback is proved total under Walk's calling convention, to leave the map unchanged when a file fails to parse and to add exactly the parsed entry otherwise; LoadDeviceConfigs is proved to load each of the four directories into its own map.", "6 C12"),
 "C13": ("proof", "Panic's loop invariant gives exactly CC123 + 128 Note Offs on the current channel and nothing else; its frame leaves trackers, counters and playing state untouched; carried through invokeActionPress and handleKEYEvent.", "6 C13"),
 "C14": ("proof", "checkExitSequence returns true and signals exactly when the sequence is non-empty and all its keys are in keyTracker (loop invariant); handleKEYEvent's clauses: signal iff the press completes the sequence, and then no output, no state change, no note, no action.", "6 C14"),
 "C16": ("proof", "PARTIAL claim, four parts. (1) No unsynchronised writes: the lock discipline is a set of contracts - ghost lock set updated by Lock/Unlock, ghost 'concurrent' flag set by go statements and cleared by WaitGroup.Wait; every write to a guarded Device field or to a map held in one is an obligation 'its mutex is held, or no other goroutine of the device runs', and the mutating methods carry that as an implicit precondition, so it holds for every schedule without exploring schedules; Lock of a mutex the goroutine already holds, Unlock of a free mutex and unbalanced locking are call-site / postcondition obligations (self-deadlock freedom of the event thread and the MIDI-input thread, a necessary condition of 'ends promptly'); externalTrackerMutex has a monitor invariant (assumed at Lock with the guarded handle arbitrary, obligation at Unlock). (2) No cross-talk through shared state: NewDevice's postcondition that every mutable container of a new device (all maps including the per-channel inner maps, both mutexes) is freshly allocated by that call, plus two mechanical scans (not proof): no package-level variable is written after init, and no map / slice / pointer obtained from a package-level variable is stored into a field, map or slice. (3) Reader side: the LED loop handleOpenrgb and the MIDI-input thread are under contract with 'guardedreads' - every read of a guarded field and every lookup / range step on a map held in one is an obligation 'its mutex is held'; the LED loop is a declared reader of eventProcessMutex (a write by it is a failing obligation), which justifies the single-writer rule that the event thread keeps its knowledge across Lock while the LED loop knows only the monitor invariant after Lock; locks balanced and no re-entrant Lock through all 23 loops of the LED loop; its clock, network and colour-library calls are unconstrained externs. The must-lockset scan stays as a mechanical second line for goroutines not under contract (labelled as a scan, not counted as proof). (4) Goroutine life cycle, the safety part of 'ends promptly and leaves nothing behind': obligations at wg.Wait that every context handed to a started goroutine has been cancelled and that WaitGroup.Add equals the number of goroutines started with the group; handleInputEvents calls Done exactly once on every return path (deferred extern calls are applied at return); the callee's precondition is checked at each go statement with an empty lock set. NOT decided (listed in the evidence): that the goroutines actually leave their loops when cancelled (liveness).", "6 C16"),
 "C17": ("proof", "PARTIAL claim. Decided: MIDI-input tracking - assertions at the two write sites of handleInputEvents (set only for Note On with velocity > 0 of that note/channel; cleared for Note Off and Note On with velocity 0; the map written is the one d.externalNoteTracker holds for that channel at that moment - the handle is arbitrary at every acquire of the mutex, so a stale handle does not verify), accessor contracts for Event.Type/Channel/Note, Panic's postcondition that the external tracker is replaced by 16 empty maps, and 'on disconnect all LEDs turn red' as a postcondition of the LED loop handleOpenrgb (if any frame was sent, the last frame sent is all red: ghost frame counter and flag updated by the assumed contract of UpdateLEDs, loop invariant of the final loop). NOT decided (listed in the evidence): the LED colours of a regular frame (attempted, withdrawn as unstable: DESIGN section 10).", "6 C17"),
 "C18": ("proof", "Contracts over a ghost file system (existence and abstract content per path; every OS call may fail, a write into a file that was not created or truncated by its open yields an unknown content). Proved for updateHIDIConfiguration and its two walk callbacks, for EVERY initial state: (1) factory update callback: on success its entry exists and a file equals its template; it changes no other path; it writes nothing when the entry is already right; (2) both properties are lifted over fs.WalkDir by a per-entry postcondition that is proved stable under calls for other entries, and by walk relations proved reflexive and transitive; (3) top level: after a successful run on an existing directory every template entry below factory/ is present and identical; on a missing directory every template entry exists; an existing blacklist is never written and a created one holds the template; nothing is deleted; nothing outside factory/ and the blacklist changes when the directory exists (user files, hidi.toml); when everything is already restored nothing is written (running again changes nothing); plus call-site obligations on every os.OpenFile / os.Mkdir / fs.WalkDir path and flag. 'A later run restores the factory files after an interruption' is covered because (3) holds from any initial state. NOT decided: content of files written by the tree creation; that a missing blacklist is always created; WalkDir and the OS-call contracts themselves (assumed).", "6 C18"),
 "C20": ("proof", "contains/containsOnly (nested loops, labelled continue) are proved to test set inclusion of handler types, DetermineDeviceType is proved to be the stated function of the SET of handler types (hence order independent), Normalize's grouping phase is proved (loop invariant: every input handler is in the group of its location, groups hold only that location) together with panic-freedom of the whole function. The device-construction phase of Normalize is covered by a bounded stand-in on the real code (labelled bounded, not counted as proved).", "6 C20"),
}

NA = {
 "C15": "schedules and liveness of concurrent relays/fan-out: function contracts cannot quantify over interleavings; hv has no permission logic for goroutines/channels (DESIGN 6 C15)",
 "C19": "inotify/fsnotify timing, bursts and shutdown liveness: not expressible as a contract on the code in /repo (DESIGN 6 C19)",
}
PENDING = {}

def main():
    props = [json.loads(l)["id"] for l in open("/verif/properties.jsonl")]
    checks = []
    for pid, (lvl, text, ref) in CLAIMS.items():
        checks.append({
            "property_id": pid,
            "quick_cmd": f"/verif/bin/hv check --property {pid} --tier quick",
            "thorough_cmd": f"/verif/bin/hv check --property {pid} --tier thorough",
            "evidence_file": f"/verif/evidence/{pid}.json",
            "replay_cmd_template": "/verif/bin/hv replay {path}",
            "engine": "hv",
            "level_claimed": {"category": lvl, "text": text, "design_ref": ref},
            "level_note": NOTE,
            "technique": TECH,
        })
    na = []
    for pid in props:
        if pid in CLAIMS:
            continue
        reason = NA.get(pid) or PENDING.get(pid) or "contracts for this property are not completed yet in this build (no check is registered rather than an unsound one); see DESIGN.md"
        na.append({"property_id": pid, "reason": reason})
    try:
        commits = subprocess.check_output(["git", "-C", "/repo", "log", "--format=%H %s"], text=True).splitlines()
    except Exception:
        commits = []
    hooks = [c.split()[0] for c in commits if " hook:" in c or c.split(" ",1)[1].startswith("hook")]
    m = {
        "version": 1,
        "setup_cmd": "cd /verif/hv && GOFLAGS=-mod=mod GOPROXY=off GOSUMDB=off GOTOOLCHAIN=local go build -o /verif/bin/hv .",
        "hooks": {
            "guard": "verif",
            "enable": "contracts are comment-only files hv_contracts_verif.go behind //go:build verif next to the code; hv reads them as text (nothing is linked), and refuses to run if they differ from the mirror in /verif/contracts",
            "baseline_off_cmd": "cd /repo && GOFLAGS=-mod=mod GOPROXY=off GOSUMDB=off GOTOOLCHAIN=local go test -vet=off -count=1 ./internal/...",
            "source_commits": hooks,
            "add_only": True,
        },
        "engines": [{"name": "hv", "path": "/verif/hv", "serves_properties": sorted(CLAIMS), "kind_free_text": "contract-based deductive verifier for Go written for this task: VC generation over go/ssa (NaiveForm) against Gobra-style contracts kept in comment files, function by function (callers see callee contracts only); obligations raced on z3 4.8.12, z3 5.1.0, cvc5 1.0"}],
        "checks": checks,
        "not_applicable": na,
        "notes": "See DESIGN.md. Exit codes of hv check: 0 all obligations discharged; 1 VIOLATION (an obligation that is discharged on the unchanged tree fails); 3 UNDECIDED (contract site missing / construct outside the subset).",
    }
    json.dump(m, open("/verif/MANIFEST.json", "w"), indent=1)
    print("wrote MANIFEST.json:", len(checks), "checks,", len(na), "not applicable")

main()
