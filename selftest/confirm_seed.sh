#!/bin/bash
# usage: confirm_seed.sh <seed-dir>
# Confirms a seeded change on the current /repo HEAD in a scratch worktree:
#  (1) demo passes without the patch, (2) suite with the patch (demo absent) equals the baseline, (3) demo fails with the patch.
set -u
seed=$1
export GOFLAGS=-mod=mod GOPROXY=off GOSUMDB=off GOTOOLCHAIN=local
pkgdir=$(python3 -c "import json;print(json.load(open('$seed/meta.json'))['demo_package_dir'])")
wt=$(mktemp -d /tmp/hvconf-XXXXXX)
git -C /repo worktree add -q --detach "$wt" HEAD || exit 2
trap 'git -C /repo worktree remove --force "$wt" >/dev/null 2>&1' EXIT
cd "$wt"
cp "$seed/demo_test.go" "$pkgdir/zz_demo_test.go"
if ! go test -vet=off -count=1 ./$pkgdir/ 2>&1 | grep -v TestParseGamepadDeadzoneAtCenter | grep -q -- "--- FAIL"; then r1=pass; else r1=FAIL; fi
rm "$pkgdir/zz_demo_test.go"
if ! git apply "$seed/patch.diff" 2>/dev/null; then
  if ! patch -p1 --fuzz=3 -s < "$seed/patch.diff" >/dev/null 2>&1; then echo "CONFIRM $seed: PATCH-DOES-NOT-APPLY"; exit 2; fi
fi
fails=$(go test -vet=off -count=1 ./internal/... 2>&1 | grep -- "--- FAIL" | grep -v TestParseGamepadDeadzoneAtCenter | wc -l)
build=$(go test -vet=off -count=1 ./internal/... 2>&1 | grep -c "build failed" )
cp "$seed/demo_test.go" "$pkgdir/zz_demo_test.go"
if go test -vet=off -count=1 ./$pkgdir/ 2>&1 | grep -v TestParseGamepadDeadzoneAtCenter | grep -q -- "--- FAIL"; then r3=fails; else r3=PASSES; fi
echo "CONFIRM $seed: demo-unpatched=$r1 suite-new-failures=$fails build-failed-pkgs=$build demo-patched=$r3"
[ "$r1" = pass ] && [ "$fails" = 0 ] && [ "$build" = 1 ] && [ "$r3" = fails ]
