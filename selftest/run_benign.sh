#!/bin/bash
# usage: run_benign.sh <benign-dir> <property>...  -- applies a behaviour-preserving patch to a scratch worktree of /repo and runs the
# given checks there; every check must still exit 0 (a non-zero exit on such a change is a false alarm of the machinery).
set -u
b=$1; shift
export GOFLAGS=-mod=mod GOPROXY=off GOSUMDB=off GOTOOLCHAIN=local
wt=$(mktemp -d /tmp/hvben-XXXXXX)
out=$(mktemp -d /tmp/hvout-XXXXXX)
git -C /repo worktree add -q --detach "$wt" HEAD || exit 2
trap 'git -C /repo worktree remove --force "$wt" >/dev/null 2>&1; rm -rf "$out"' EXIT
if ! git -C "$wt" apply "$b/patch.diff" 2>/dev/null; then
  if ! (cd "$wt" && patch -p1 --fuzz=3 -s < "$b/patch.diff" >/dev/null 2>&1); then echo "PATCH-DOES-NOT-APPLY $b (the tree changed since the patch was written)"; exit 2; fi
fi
bad=0
for p in "$@"; do
  HV_REPO="$wt" HV_OUT="$out" ${HV_BIN:-/verif/bin/hv} check --property "$p" > "$out/log" 2>&1
  rc=$?
  echo "BENIGN $(basename $b) $p rc=$rc $(grep -E '^(VIOLATION|UNDECIDED|OK)' "$out/log" | head -2 | cut -c1-200 | tr '\n' ' ')"
  grep -E "^  obligation" "$out/log" | head -3
  [ $rc -ne 0 ] && bad=1
done
exit $bad
