#!/bin/bash
# usage: run_seed.sh <seed-dir> [property]   -- applies the seed's patch to a scratch worktree of /repo and runs the property's check there.
# exit 0 when the check reports a violation (seed caught), 1 when it does not.
set -u
seed=$1
prop=${2:-$(python3 -c "import json,sys;print(json.load(open('$seed/meta.json'))['property'])")}
export GOFLAGS=-mod=mod GOPROXY=off GOSUMDB=off GOTOOLCHAIN=local
wt=$(mktemp -d /tmp/hvseed-XXXXXX)
out=$(mktemp -d /tmp/hvout-XXXXXX)
git -C /repo worktree add -q --detach "$wt" HEAD || exit 2
trap 'git -C /repo worktree remove --force "$wt" >/dev/null 2>&1; [ -n "${KEEP_OUT:-}" ] && cp -r "$out/replays" "$KEEP_OUT" 2>/dev/null; rm -rf "$out"' EXIT
if ! git -C "$wt" apply "$seed/patch.diff" 2>/dev/null; then
  if ! (cd "$wt" && patch -p1 --fuzz=3 -s < "$seed/patch.diff"); then echo "PATCH-DOES-NOT-APPLY $seed"; exit 2; fi
fi
HV_REPO="$wt" HV_OUT="$out" ${HV_BIN:-/verif/bin/hv} check --property "$prop" > "$out/log" 2>&1
rc=$?
grep -E "^(VIOLATION|UNDECIDED|OK|KNOWN)" "$out/log" | head -5
grep -E "^  obligation" "$out/log" | head -3
if [ $rc -eq 1 ]; then echo "CAUGHT $seed ($prop)"; exit 0; fi
echo "MISSED $seed ($prop) rc=$rc"; exit 1
