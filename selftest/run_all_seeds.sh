#!/bin/bash
# Runs every seeded change under /verif/seeded against its property's check; prints one CAUGHT/MISSED line per seed.
cd /verif
for s in /verif/seeded/C*/; do
  ./selftest/run_seed.sh "$s" 2>&1 | grep -E "^(CAUGHT|MISSED|PATCH)" 
done
