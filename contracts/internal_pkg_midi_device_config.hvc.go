//go:build verif

// Contracts for package config, read by the hv verifier (/verif). Comment-only file: compiles to nothing.
package config

// ---- C12: configuration selection

// directories loaded so far, and into which map (ghost; updated on entry of loadDirectory)
//@ ghost var loadedInto fun[string]Ref

//@ func (*DeviceConfigs).FindConfig
//@   requires c != nil
//@   let z := zero("input.InputID")
//@   let uk := c.User.Keyboards
//@   let fk := c.Factory.Keyboards
//@   let ug := c.User.Gamepads
//@   let fg := c.Factory.Gamepads
//@   let kb := devType == input.KeyboardDevice
//@   let js := devType == input.JoystickDevice
//@   ensures [C12] kb && has(uk, id) ==> result.1 == nil && result.0 == uk[id]
//@   ensures [C12] kb && !has(uk, id) && has(uk, z) ==> result.1 == nil && result.0 == uk[z]
//@   ensures [C12] kb && !has(uk, id) && !has(uk, z) && has(fk, id) ==> result.1 == nil && result.0 == fk[id]
//@   ensures [C12] kb && !has(uk, id) && !has(uk, z) && !has(fk, id) && has(fk, z) ==> result.1 == nil && result.0 == fk[z]
//@   ensures [C12] kb && !has(uk, id) && !has(uk, z) && !has(fk, id) && !has(fk, z) ==> result.1 != nil
//@   ensures [C12] js && has(ug, id) ==> result.1 == nil && result.0 == ug[id]
//@   ensures [C12] js && !has(ug, id) && has(ug, z) ==> result.1 == nil && result.0 == ug[z]
//@   ensures [C12] js && !has(ug, id) && !has(ug, z) && has(fg, id) ==> result.1 == nil && result.0 == fg[id]
//@   ensures [C12] js && !has(ug, id) && !has(ug, z) && !has(fg, id) && has(fg, z) ==> result.1 == nil && result.0 == fg[z]
//@   ensures [C12] js && !has(ug, id) && !has(ug, z) && !has(fg, id) && !has(fg, z) ==> result.1 != nil
//@   ensures [C12] !kb && !js ==> result.1 != nil
//@   safety [C12]
//@   modifies nothing

// the walk callback: a file that fails to parse is skipped and never aborts the walk or touches other entries;
// precondition = filepath.Walk's documented calling convention (info is valid unless err is set)
//@ func loadDirectory$1
//@   requires configMap != nil && configType != nil && deref(configMap) != nil
//@   requires info != nil || err != nil
//@   let m := deref(configMap)
//@   ensures [C12] err == nil ==> result == nil
//@   ensures [C12] local(err) != nil ==> keys(m) == old(keys(m)) && vals(m) == old(vals(m))
//@   ensures [C12] (keys(m) == old(keys(m)) && vals(m) == old(vals(m))) || (keys(m) == upd(old(keys(m)), devCfg.Config.ID, true) && vals(m) == upd(old(vals(m)), devCfg.Config.ID, devCfg))
//@   safety [C12]
//@   modifies deref(configMap)[_]

//@ func loadDirectory
//@   requires configMap != nil
//@   ghost entry loadedInto = upd(loadedInto, root, configMap)
//@   ensures [C12] loadedInto == upd(old(loadedInto), root, configMap)
//@   safety [C12]
//@   modifies configMap[_], loadedInto

//@ func LoadDeviceConfigs
//@   callassert loadDirectory [C12] (root == factoryGamepad && configType == "factory") || (root == factoryKeyboard && configType == "factory") || (root == userGamepad && configType == "user") || (root == userKeyboard && configType == "user")
//@   ensures [C12] result.1 == nil ==> loadedInto[factoryGamepad] == result.0.Factory.Gamepads && loadedInto[factoryKeyboard] == result.0.Factory.Keyboards && loadedInto[userGamepad] == result.0.User.Gamepads && loadedInto[userKeyboard] == result.0.User.Keyboards
//@   ensures [C12] result.0.Factory.Gamepads != nil && result.0.Factory.Keyboards != nil && result.0.User.Gamepads != nil && result.0.User.Keyboards != nil
//@   loop 1 invariant [C12] idx() >= 1 ==> loadedInto[factoryGamepad] == cfg.Factory.Gamepads
//@   loop 1 invariant [C12] idx() >= 2 ==> loadedInto[factoryKeyboard] == cfg.Factory.Keyboards
//@   loop 1 invariant [C12] idx() >= 3 ==> loadedInto[userGamepad] == cfg.User.Gamepads
//@   loop 1 invariant [C12] idx() >= 4 ==> loadedInto[userKeyboard] == cfg.User.Keyboards
//@   loop 1 invariant cfg.Factory.Gamepads != nil && cfg.Factory.Keyboards != nil && cfg.User.Gamepads != nil && cfg.User.Keyboards != nil
//@   safety [C12]

// C09 after the repair F17: ParseData (and LoadHIDIConfig) run under a deferred recover, so a panic anywhere below them is
// returned as an error and is no longer a violation of C09. What C09 needs is (1) that the recover is installed before the
// decoder is called (obligation at the `maypanic` externs), (2) panic-freedom of what runs OUTSIDE the recover
// (readDeviceConfig), (3) termination: only structurally bounded loops. The panic-freedom obligations of the functions
// under the recover are still generated (tag ROB: robustness, not claimed by any property).
//@ func readDeviceConfig
//@   safety [C09,C12]
//@   terminates [C09]

// ---- C10: what is accepted says what the (decoded) file says, and everything is within its MIDI range.
// "What the file states" is taken at the decoded TOML struct (the decoder itself is assumed, see extern.hvc).
// Per-entry clauses are attached to the store sites, selected by the static type of the map (robust to local renames).

// decoders on which DisallowUnknownFields was called (typestate: an unknown field can only be rejected by a strict decoder)
//@ ghost var strictDec set[Ref]

//@ func ParseData
//@   siteassert mapupdate(map[evdev.EvCode]Key) [C10] k == evcode && int(v.ChannelOffset) == offsetInt && offsetInt >= 0 && offsetInt <= 15 && ((int(v.Note) == noteInt && noteInt >= 0 && noteInt <= 127) || (v.Note == note && note <= 127))
//@   siteassert mapupdate(map[evdev.EvCode]Analog) [C10] k == evcode && v.MappingType == analog.Type && v.FlipAxis == analog.FlipAxis && v.DeadzoneAtCenter == analog.DeadzoneAtCenter
//@   siteassert mapupdate(map[evdev.EvCode]Analog) [C10] v.MappingType == AnalogCC || v.MappingType == AnalogPitchBend || v.MappingType == AnalogKeySim || v.MappingType == AnalogActionSim
//@   siteassert mapupdate(map[evdev.EvCode]Analog) [C10,C05] v.MappingType != AnalogActionSim ==> int(v.ChannelOffset) == analog.ChannelOffset && analog.ChannelOffset >= 0 && analog.ChannelOffset <= 15
//@   siteassert mapupdate(map[evdev.EvCode]Analog) [C10,C05] v.MappingType == AnalogCC || v.MappingType == AnalogKeySim ==> int(v.ChannelOffsetNeg) == analog.ChannelOffsetNegative && analog.ChannelOffsetNegative >= 0 && analog.ChannelOffsetNegative <= 15
//@   siteassert mapupdate(map[evdev.EvCode]Analog) [C10,C05] v.MappingType == AnalogCC ==> analog.CC != nil && int(v.CC) == deref(analog.CC) && deref(analog.CC) >= 0 && deref(analog.CC) <= 119
//@   siteassert mapupdate(map[evdev.EvCode]Analog) [C10,C05] v.MappingType == AnalogCC ==> v.Bidirectional == (analog.CCNegative != nil) && (analog.CCNegative != nil ==> int(v.CCNeg) == deref(analog.CCNegative) && deref(analog.CCNegative) >= 0 && deref(analog.CCNegative) <= 119)
//@   siteassert mapupdate(map[evdev.EvCode]Analog) [C10,C08] v.MappingType == AnalogKeySim ==> analog.Note != nil && int(v.Note) == deref(analog.Note) && deref(analog.Note) >= 0 && deref(analog.Note) <= 127
//@   siteassert mapupdate(map[evdev.EvCode]Analog) [C10,C08] v.MappingType == AnalogKeySim ==> v.Bidirectional == (analog.NoteNegative != nil) && (analog.NoteNegative != nil ==> int(v.NoteNeg) == deref(analog.NoteNegative) && deref(analog.NoteNegative) >= 0 && deref(analog.NoteNegative) <= 127)
//@   siteassert mapupdate(map[evdev.EvCode]Analog) [C10] v.MappingType == AnalogActionSim ==> analog.Action != nil && v.Action == deref(analog.Action) && SupportedActions[v.Action]
//@   siteassert mapupdate(map[evdev.EvCode]Analog) [C10] v.MappingType == AnalogActionSim ==> v.Bidirectional == (analog.ActionNegative != nil) && (analog.ActionNegative != nil ==> v.ActionNeg == deref(analog.ActionNegative) && SupportedActions[v.ActionNeg])
//@   siteassert mapupdate(map[evdev.EvCode]float64) [C10] k == evcode && same(v, value)
//@   siteassert mapupdate(map[evdev.EvCode]Action) [C10] k == evcode && v == actionRaw && SupportedActions[v]
//@   siteassert mapupdate(map[string]map[evdev.EvCode]Key) [C10] k == subMapping.SubHandler && v == midiMappingTmp
//@   siteassert mapupdate(map[string]map[evdev.EvCode]Analog) [C10] k == subMapping.SubHandler && v == analogMappingTmp
//@   siteassert mapupdate(map[string]map[evdev.EvCode]float64) [C10] k == subMapping.SubHandler && v == deadzonesTmp
//@   siteassert mapupdate(map[string]float64) [C10] k == subMapping.SubHandler && same(v, subMapping.DefaultDeadzone)
//@   ensures [C10] result.1 == nil ==> result.0.CollisionMode == cfg.CollisionMode && modeOKc(result.0.CollisionMode)
//@   ensures [C10,C05] result.1 == nil ==> result.0.Defaults.Channel == cfg.Defaults.Channel && cfg.Defaults.Channel >= 1 && cfg.Defaults.Channel <= 16
//@   ensures [C10,C05] result.1 == nil ==> cfg.Defaults.Velocity >= 0 && cfg.Defaults.Velocity <= 127 && result.0.Defaults.Velocity == (if cfg.Defaults.Velocity == 0 then 64 else cfg.Defaults.Velocity)
//@   ensures [C10] result.1 == nil ==> result.0.Defaults.Octave == cfg.Defaults.Octave && result.0.Defaults.Semitone == cfg.Defaults.Semitone
//@   ensures [C10,C05] result.1 == nil ==> result.0.Defaults.Mapping >= 0 && result.0.Defaults.Mapping < len(result.0.KeyMappings) && result.0.KeyMappings[result.0.Defaults.Mapping].Name == cfg.Defaults.Mapping
//@   ensures [C10] result.1 == nil ==> len(result.0.KeyMappings) == len(cfg.KeyMappings) && len(result.0.ExitSequence) == len(cfg.ExitSequence)
//@   ensures [C10] result.1 == nil ==> result.0.ID.Bus == cfg.Identifier.Bus && result.0.ID.Vendor == cfg.Identifier.Vendor && result.0.ID.Product == cfg.Identifier.Product && result.0.ID.Version == cfg.Identifier.Version && result.0.Uniq == cfg.Identifier.Uniq
//@   ensures [C10] result.1 == nil ==> result.0.OpenRGB.Colors.White.Red == byte(cfg.OpenRGB.White >> 16) && result.0.OpenRGB.Colors.White.Green == byte(cfg.OpenRGB.White >> 8) && result.0.OpenRGB.Colors.White.Blue == byte(cfg.OpenRGB.White)
//@   ensures [C10] result.1 == nil ==> result.0.OpenRGB.Colors.Black.Red == byte(cfg.OpenRGB.Black >> 16) && result.0.OpenRGB.Colors.C.Green == byte(cfg.OpenRGB.C >> 8) && result.0.OpenRGB.Colors.Unavailable.Blue == byte(cfg.OpenRGB.Unavailable) && result.0.OpenRGB.Colors.Other.Red == byte(cfg.OpenRGB.Other >> 16) && result.0.OpenRGB.Colors.Active.Green == byte(cfg.OpenRGB.Active >> 8) && result.0.OpenRGB.Colors.ActiveExternal.Blue == byte(cfg.OpenRGB.ActiveExternal)
//@   ensures [C10] result.1 == nil ==> result.0.ActionMapping == actionMapping && result.0.ActionMapping != nil
//@   ensures [C05,C10] result.1 == nil ==> cfgOK(result.0)
//@   ensures [C05] result.1 == nil ==> cfgDz(result.0)
//@   loop 1 invariant [C10] len(keyMapping) == idx() && idx() >= 0 && idx() <= len(cfg.KeyMappings) && (len(keyMapping) == 0 || allocated(keyMapping))
//@   loop 1 invariant [C10] forall j int :: 0 <= j && j < idx() ==> keyMapping[j].Name == cfg.KeyMappings[j].Name
//@   loop 1 invariant [C05] forall j int, sub string :: 0 <= j && j < idx() ==> allocated(keyMapping[j].Analog) && allocated(keyMapping[j].DefaultDeadzone) && (has(keyMapping[j].Analog, sub) ==> has(keyMapping[j].DefaultDeadzone, sub))
//@   loop 4 invariant [C05] analogMapping != nil && defaultDeadzone != nil && allocated(analogMapping) && allocated(defaultDeadzone) && (forall sub string :: has(analogMapping, sub) ==> has(defaultDeadzone, sub))
//@   loop 4 invariant [C05] forall j int, sub string :: 0 <= j && j < idx(1) - 1 ==> allocated(keyMapping[j].Analog) && allocated(keyMapping[j].DefaultDeadzone) && keyMapping[j].Analog != analogMapping && keyMapping[j].DefaultDeadzone != defaultDeadzone && (has(keyMapping[j].Analog, sub) ==> has(keyMapping[j].DefaultDeadzone, sub))
//@   loop 9 invariant [C10] len(exitSequence) == idx() && idx() >= 0 && idx() <= len(cfg.ExitSequence)
//@   loop 8 invariant [C10] idx() >= 0 && idx() <= len(keyMapping) && mappingIndex >= -1 && mappingIndex < idx() && (mappingIndex >= 0 ==> keyMapping[mappingIndex].Name == cfg.Defaults.Mapping)
//@   safety [ROB]
//@   terminates [C09]

//@ func TomlKeyToEvCode
//@   let hex := ext("strings.HasPrefix", key, "x", "bool")
//@   ensures [C10] !hex && result.1 == nil ==> has(lookupTable, key) && result.0 == lookupTable[key]
//@   ensures [C10] !hex && !has(lookupTable, key) ==> result.1 != nil
//@   safety [ROB]
//@   terminates [C09]
//@   modifies nothing

// ---- C11: note names

//@ pred modeOKc(m CollisionMode) := m == CollisionOff || m == CollisionNoRepeat || m == CollisionInterrupt || m == CollisionRetrigger

//@ pred isLetter(c byte) := (c >= 65 && c <= 90) || (c >= 97 && c <= 122)
//@ pred isDigit(c byte) := c >= 48 && c <= 57
//@ pred noteSharp(s string) := (len(s) == 3 && s[1] == 35) || len(s) == 4
//@ pred noteNeg(s string) := (len(s) == 3 && s[1] == 45) || len(s) == 4
// strings the regular expression matches: letter, optional #, then one digit or -1 or -2
//@ pred noteShape(s string) :=
//@   (len(s) == 2 && isLetter(s[0]) && isDigit(s[1]))
//@   || (len(s) == 3 && isLetter(s[0]) && ((s[1] == 35 && isDigit(s[2])) || (s[1] == 45 && (s[2] == 49 || s[2] == 50))))
//@   || (len(s) == 4 && isLetter(s[0]) && s[1] == 35 && s[2] == 45 && (s[3] == 49 || s[3] == 50))
//@ spec fn upper(c byte) byte := if c >= 97 && c <= 122 then c - 32 else c
// pitch class of letter l (upper case) with or without #: C0 C#1 D2 D#3 E4 F5 F#6 G7 G#8 A9 A#10 B11; 255 = no such pitch
//@ spec fn pitchClass(l byte, sharp bool) int :=
//@   if l == 67 then (if sharp then 1 else 0) else if l == 68 then (if sharp then 3 else 2) else if l == 69 then (if sharp then 255 else 4)
//@   else if l == 70 then (if sharp then 6 else 5) else if l == 71 then (if sharp then 8 else 7) else if l == 65 then (if sharp then 10 else 9)
//@   else if l == 66 then (if sharp then 255 else 11) else 255
//@ spec fn noteOctave(s string) int := if noteNeg(s) then 0 - (int(s[len(s) - 1]) - 48) else int(s[len(s) - 1]) - 48
//@ spec fn noteNum(s string) int := (noteOctave(s) + 2) * 12 + pitchClass(upper(s[0]), noteSharp(s))
// the 128 note names: letters A-G in any case, # only where it exists, octave -2..8 written without "-0", not above G8
//@ pred validNote(s string) :=
//@   noteShape(s) && pitchClass(upper(s[0]), noteSharp(s)) != 255
//@   && (noteNeg(s) ==> s[len(s) - 1] == 49 || s[len(s) - 1] == 50) && noteOctave(s) <= 8 && noteNum(s) <= 127

// strings are determined by their length and bytes (needed to identify a computed pitch string with a table key)
//@ axiom str_ext0: forall a string, b string :: len(a) == 0 && len(b) == 0 ==> a == b
//@ axiom str_ext1: forall a string, b string :: len(a) == 1 && len(b) == 1 && a[0] == b[0] ==> a == b
//@ axiom str_ext2: forall a string, b string :: len(a) == 2 && len(b) == 2 && a[0] == b[0] && a[1] == b[1] ==> a == b

//@ func StringToNote
//@   ensures [C11] validNote(note) ==> result.1 == nil
//@   ensures [C10,C11] result.1 == nil ==> validNote(note)
//@   ensures [C10,C11] validNote(note) ==> int(result.0) == noteNum(note)
//@   safety [C11]
//@   terminates [C09]
//@   modifies nothing

//@ func NoteToOctave
//@   ensures [C11] result == int(note / 12) - 2
//@   modifies nothing

//@ func NoteToPitch
//@   ensures [C11] (len(result) == 1 || (len(result) == 2 && result[1] == 35)) && pitchClass(result[0], len(result) == 2) == int(note % 12)
//@   modifies nothing

// numbers -> names -> numbers is the identity on 0..127, names -> numbers is injective up to letter case
//@ lemma C11_roundtrip [C11]: forall n byte, l byte, sharp bool, o int :: n <= 127 && pitchClass(l, sharp) == int(n % 12) && o == int(n / 12) - 2 ==> (o + 2) * 12 + pitchClass(l, sharp) == int(n) && o >= -2 && o <= 8
//@ lemma C11_injective [C11]: forall a string, b string :: validNote(a) && validNote(b) && noteNum(a) == noteNum(b) ==> upper(a[0]) == upper(b[0]) && noteSharp(a) == noteSharp(b) && noteOctave(a) == noteOctave(b)
//@ lemma C11_range [C11]: forall a string :: validNote(a) ==> noteNum(a) >= 0 && noteNum(a) <= 127
//@ canary C11_not_vacuous [C11]: forall a string :: !validNote(a)

//@ func ParseData$1
//@   ensures [C10] result.Red == byte(v >> 16) && result.Green == byte(v >> 8) && result.Blue == byte(v)
//@   modifies nothing
