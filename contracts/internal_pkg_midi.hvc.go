//go:build verif

// Contracts for package midi, read by the hv verifier (/verif). Comment-only file: compiles to nothing.
package midi

//@ func NoteEvent
//@   ensures [C02,C03,C04,C05,C08,C13] len(result) == 3 && result[0] == messageType | channel && result[1] == note && result[2] == velocity
//@   modifies nothing

//@ func ControlChangeEvent
//@   ensures [C05,C07,C13] len(result) == 3 && result[0] == 0xB0 | channel && result[1] == function && result[2] == value
//@   modifies nothing

//@ func PitchBendEvent
//@   ensures [C05,C06] len(result) == 3 && result[0] == 0xE0 | channel && result[1] <= 127 && result[2] <= 127
//@   ensures [C06] val == 0.0 ==> result[1] == 0 && result[2] == 64
//@   ensures [C06] val == 1.0 ==> result[1] == 127 && result[2] == 127
//@   ensures [C06] val == -1.0 ==> result[1] == 0 && result[2] == 0
//@   modifies nothing
