//go:build verif

// Contracts for package midi, read by the hv verifier (/verif). Comment-only file: compiles to nothing.
package midi

//@ func NoteEvent
//@   ensures [C02,C03,C04,C05,C08,C13] len(result) == 3 && result[0] == messageType | channel && result[1] == note && result[2] == velocity
//@   modifies nothing

//@ func ControlChangeEvent
//@   ensures [C05,C07,C13] len(result) == 3 && result[0] == 0xB0 | channel && result[1] == function && result[2] == value
//@   modifies nothing

//@ func PitchBendEvent
//@   ensures [C05,C06] len(result) == 3 && result[0] == 0xE0 | channel && result[1] <= 127 && result[2] <= 127
//@   ensures [C06] val == 0.0 ==> result[1] == 0 && result[2] == 64
//@   ensures [C06] val == 1.0 ==> result[1] == 127 && result[2] == 127
//@   ensures [C06] val == -1.0 ==> result[1] == 0 && result[2] == 0
//@   modifies nothing

// ---- accessors used by the MIDI-input tracking (C17)
//@ func (Event).Type
//@   ensures [C17] len(e) == 0 ==> result == 0
//@   ensures [C17] len(e) > 0 ==> result == (if e[0] & 0xF0 != 0xF0 && e[0] & 0x80 != 0 then e[0] & 0xF0 else e[0])
//@   safety [C17]
//@   modifies nothing

//@ func (Event).Channel
//@   ensures [C17] len(e) > 0 ==> result == e[0] & 0x0F
//@   safety [C17]
//@   modifies nothing

// Note indexes e[1] after excluding only the empty message: complete messages are a precondition (environment, see handleInputEvents)
//@ func (Event).Note
//@   requires len(e) == 0 || len(e) >= 2
//@   ensures [C17] len(e) > 0 ==> result == e[1]
//@   safety [C17]
//@   modifies nothing
