//go:build verif

// Contracts for package main (cmd/hidi), read by the hv verifier (/verif). Comment-only file: compiles to nothing.
package main

//@ func LoadHIDIConfig
//@   safety [C09]
