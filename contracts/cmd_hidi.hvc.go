//go:build verif

// Contracts for package main (cmd/hidi), read by the hv verifier (/verif). Comment-only file: compiles to nothing.
package main

// runs under a deferred recover (repair F17): see the note on readDeviceConfig in the config package's contracts
//@ func LoadHIDIConfig
//@   safety [ROB]
//@   terminates [C09]

// ---- C18 (partial): start-up upkeep never opens anything for writing outside the factory tree and the blacklist.
// Frame clause only: every OS call that can create or change something (OpenFile with a write flag, Mkdir) is a call-site
// obligation on its path argument, for every state of the file system (all OS calls are arbitrary). Restoration and
// idempotence are not decided (they need an axiomatised file system).

// ghost file system (see contracts/extern.hvc): existence and abstract content per path
//@ ghost var fsExists set[string]
//@ ghost var fsData fun[string]int
//@ spec fn pathOf(h Ref) string
//@ spec fn blob(b []byte) int
//@ spec fn tmplBlob(name string) int
//@ spec fn overlay(old int, new int) int
//@ spec fn inWalk(root string, q string, d fs.DirEntry) bool
//@ pred isDirEntry(d fs.DirEntry) := ext("(fs.DirEntry).IsDir", d, "bool")
//@ pred underFactory(p string) := ext("strings.HasPrefix", p, "hidi-config/factory", "bool")
//@ pred underConfig(p string) := ext("strings.HasPrefix", p, "hidi-config", "bool")
// what the walk is assumed to visit lies inside its root; the blacklist is not inside the factory tree
//@ axiom C18_walk_inside: forall root string, q string, d fs.DirEntry :: inWalk(root, q, d) ==> ext("strings.HasPrefix", q, root, "bool")
//@ axiom C18_sentinels: fs.SkipDir != nil && fs.SkipAll != nil
//@ axiom C18_blacklist_outside: !ext("strings.HasPrefix", "hidi-config/device blacklist.txt", "hidi-config/factory", "bool")

// per-entry result of the factory update: the entry exists and, if it is a file, equals its template
//@ pred restored(p string, d fs.DirEntry) := fsExists[p] && (!isDirEntry(d) ==> fsData[p] == tmplBlob(p))
// per-entry result of the tree creation
//@ pred created(p string, d fs.DirEntry) := fsExists[p]

// the callback of the factory update (directory exists)
//@ func updateHIDIConfiguration$2
// (the walk is over the embedded template tree, which is compiled in: its roots exist, so entries are never nil)
//@   requires inWalk("hidi-config/factory", path, entry) && entry != nil
//@   walkpost [C18] restored(path, entry)
// the summary of the walk relies on every entry being visited: the callback must not ask the walk to skip anything
//@   ensures [C18] result != fs.SkipDir && result != fs.SkipAll
//@   walkrel [C18] forall q string :: !underFactory(q) ==> (fsExists[q] <==> old(fsExists[q])) && fsData[q] == old(fsData[q])
//@   walkrel [C18] forall q string :: old(fsExists[q]) ==> fsExists[q]
//@   walkrel [C18] (forall q string, dq fs.DirEntry :: inWalk("hidi-config/factory", q, dq) ==> old(restored(q, dq))) ==> fsExists == old(fsExists) && fsData == old(fsData)
//@   ensures [C18] forall q string :: q != path ==> (fsExists[q] <==> old(fsExists[q])) && fsData[q] == old(fsData[q])
//@   ensures [C18] old(fsExists[path]) ==> fsExists[path]
//@   ensures [C18] old(restored(path, entry)) ==> fsExists == old(fsExists) && fsData == old(fsData)
//@   callassert os.OpenFile [C18] flag == 0 || (name == path && underFactory(name))
//@   callassert os.Mkdir [C18] name == path && underFactory(name)
//@   modifies fsExists, fsData
//@   safety [C18]

// the callback of the tree creation (directory did not exist)
//@ func updateHIDIConfiguration$1
//@   requires inWalk("hidi-config", path, d) && d != nil
//@   walkpost [C18] created(path, d)
//@   ensures [C18] result != fs.SkipDir && result != fs.SkipAll
//@   walkrel [C18] forall q string :: !underConfig(q) ==> (fsExists[q] <==> old(fsExists[q])) && fsData[q] == old(fsData[q])
//@   walkrel [C18] forall q string :: old(fsExists[q]) ==> fsExists[q]
//@   ensures [C18] forall q string :: q != path ==> (fsExists[q] <==> old(fsExists[q])) && fsData[q] == old(fsData[q])
//@   ensures [C18] old(fsExists[path]) ==> fsExists[path]
//@   callassert os.OpenFile [C18] name == path && underConfig(name) && flag & 512 == 0
//@   callassert os.Mkdir [C18] name == path && underConfig(name)
//@   modifies fsExists, fsData
//@   safety [C18]

//@ func updateHIDIConfiguration
//@   let bl := "hidi-config/device blacklist.txt"
// factory files: after a successful run on an existing directory every template entry below factory/ is present and identical
//@   ensures [C18] result == nil && old(fsExists["hidi-config"]) ==> (forall q string, dq fs.DirEntry :: inWalk("hidi-config/factory", q, dq) ==> restored(q, dq))
// tree creation: after a successful run on a missing directory every template entry exists
//@   ensures [C18] result == nil && !old(fsExists["hidi-config"]) ==> (forall q string, dq fs.DirEntry :: inWalk("hidi-config", q, dq) ==> created(q, dq))
// the blacklist: an existing one is never written; one that is created holds the template
//@   ensures [C18] old(fsExists[bl]) && old(fsExists["hidi-config"]) ==> fsData[bl] == old(fsData[bl])
//@   ensures [C18] result == nil && old(fsExists["hidi-config"]) && !old(fsExists[bl]) && fsExists[bl] ==> fsData[bl] == tmplBlob(bl)
// nothing is ever deleted, and with the directory present nothing outside factory/ and the blacklist changes
//@   ensures [C18] forall q string :: old(fsExists[q]) ==> fsExists[q]
//@   ensures [C18] old(fsExists["hidi-config"]) ==> (forall q string :: !underFactory(q) && q != bl ==> (fsExists[q] <==> old(fsExists[q])) && fsData[q] == old(fsData[q]))
// running it again changes nothing: when every template entry below factory/ is already restored and the blacklist exists, nothing is written
//@   ensures [C18] old(fsExists["hidi-config"]) && old(fsExists[bl]) && (forall q string, dq fs.DirEntry :: inWalk("hidi-config/factory", q, dq) ==> old(restored(q, dq))) ==> (forall q string, dq fs.DirEntry :: inWalk("hidi-config/factory", q, dq) ==> fsData[q] == old(fsData[q])) && fsData[bl] == old(fsData[bl])
//@   callassert os.OpenFile [C18] flag == 0 || (name == "hidi-config/device blacklist.txt" && flag & 512 == 0)
//@   callassert fs.WalkDir [C18] root == "hidi-config" || root == "hidi-config/factory"
//@   modifies fsExists, fsData
//@   safety [C18]
