//go:build verif

// Contracts for package device, read by the hv verifier (/verif). Comment-only file: compiles to nothing.
package device

// ---- ghost receiver state, updated at every send on Device.outputEvents (so new send sites are covered automatically)
//@ ghost var out fun[int]Ev
//@ ghost var outLen int
//@ ghost var sounding fun[byte]set[byte]
//@ ghost var sigs int

//@ on send Device.outputEvents(e) { out = upd(out, outLen, evOf(e)); outLen = outLen + 1; sounding = rx(sounding, evOf(e)) }
//@ on send Device.sigs(s) { sigs = sigs + 1 }

// C05: every emitted message is a complete three-byte channel message with valid status and data bytes
//@ sendassert Device.outputEvents(e) [C05] len(e) == 3 && (e[0] & 0xF0 == 0x80 || e[0] & 0xF0 == 0x90 || e[0] & 0xF0 == 0xB0 || e[0] & 0xF0 == 0xE0) && e[1] <= 127 && e[2] <= 127

// receiver model: what a MIDI receiver has sounding after a message
//@ spec fn rx(s fun[byte]set[byte], e Ev) fun[byte]set[byte] :=
//@   let st := e.b0 & 0xF0 in let ch := e.b0 & 0x0F in
//@   if st == 0x90 && e.b2 > 0 then upd(s, ch, upd(s[ch], e.b1, true))
//@   else if st == 0x80 || st == 0x90 then upd(s, ch, upd(s[ch], e.b1, false))
//@   else if st == 0xB0 && e.b1 == 123 then upd(s, ch, emptyset("set[byte]"))
//@   else s

//@ pred modeOK(m config.CollisionMode) :=
//@   m == config.CollisionOff || m == config.CollisionNoRepeat || m == config.CollisionInterrupt || m == config.CollisionRetrigger

// data-structure well-formedness: established by NewDevice, preserved by every method
//@ pred wf(d *Device) :=
//@   d != nil && d.channel < 16 && d.velocity >= 1 && d.velocity <= 127
//@   && d.mapping >= 0 && d.mapping < len(d.config.KeyMappings)
//@   && d.activeNotesCounter != nil && d.noteTracker != nil && d.analogNoteTracker != nil && d.keyTracker != nil
//@   && d.actionTracker != nil && d.ccZeroed != nil
//@   && (forall ch byte :: ch < 16 ==> has(d.activeNotesCounter, ch) && d.activeNotesCounter[ch] != nil)
//@   && (forall c1 byte, c2 byte :: c1 < 16 && c2 < 16 && c1 != c2 ==> d.activeNotesCounter[c1] != d.activeNotesCounter[c2])
//@   && (forall k evdev.EvCode :: has(d.noteTracker, k) ==> d.noteTracker[k][0] <= 127 && d.noteTracker[k][1] < 16)
//@   && (forall s string :: has(d.analogNoteTracker, s) ==> d.analogNoteTracker[s][0] <= 127 && d.analogNoteTracker[s][1] < 16)
//@   && modeOK(d.config.CollisionMode)

// history invariant (C01, C03): counters count the holders; everything sounding has a holder
//@ pred counted(d *Device) :=
//@   forall ch byte, n byte :: ch < 16 && n < 128 ==> d.activeNotesCounter[ch][n] == cnt(d.noteTracker, mkarr(n, ch))
//@ pred held(d *Device) :=
//@   forall ch byte, n byte :: sounding[ch][n] ==> ch < 16 && n < 128 && (d.activeNotesCounter[ch][n] >= 1 || cnt(d.analogNoteTracker, mkarr(n, ch)) >= 1)
//@ pred InvCore(d *Device) := wf(d) && counted(d) && held(d)

// ---- NoteOn / NoteOff

//@ func (*Device).NoteOn
//@   requires wf(d) && ev != nil
//@   let code := ev.Event.Code
//@   let mapped := has(d.config.KeyMappings[d.mapping].Midi[ev.Source.Name], code)
//@   let key := d.config.KeyMappings[d.mapping].Midi[ev.Source.Name][code]
//@   let s := int64(key.Note) + 12 * int64(d.octave) + int64(d.semitone)
//@   let sounds := mapped && s >= 0 && s <= 127
//@   let n := byte(s)
//@   let ch := (d.channel + key.ChannelOffset) % 16
//@   let c := d.activeNotesCounter[ch][n]
//@   let mode := d.config.CollisionMode
//@   let onEv := mkev(0x90 | ch, n, d.velocity)
//@   let offEv := mkev(0x80 | ch, n, 0)
//@   let quiet := mode == config.CollisionNoRepeat && c > 0
//@   let cut := mode == config.CollisionInterrupt && c > 0
//@   ensures [C04] !sounds ==> outLen == old(outLen) && out == old(out)
//@   ensures [C04] !sounds ==> keys(d.noteTracker) == old(keys(d.noteTracker)) && vals(d.noteTracker) == old(vals(d.noteTracker))
//@   ensures [C04] !sounds ==> keys(d.activeNotesCounter[ch]) == old(keys(d.activeNotesCounter[ch])) && vals(d.activeNotesCounter[ch]) == old(vals(d.activeNotesCounter[ch]))
//@   ensures [C03] sounds && quiet ==> outLen == old(outLen) && out == old(out)
//@   ensures [C03,C04] sounds && !quiet && !cut ==> outLen == old(outLen) + 1 && out == upd(old(out), old(outLen), onEv)
//@   ensures [C03,C04] sounds && cut ==> outLen == old(outLen) + 2 && out == upd(upd(old(out), old(outLen), offEv), old(outLen) + 1, onEv)
//@   ensures [C02,C03] sounds ==> keys(d.noteTracker) == upd(old(keys(d.noteTracker)), code, true) && vals(d.noteTracker) == upd(old(vals(d.noteTracker)), code, mkarr(n, ch))
//@   ensures [C03] sounds ==> keys(d.activeNotesCounter[ch]) == upd(old(keys(d.activeNotesCounter[ch])), n, true) && vals(d.activeNotesCounter[ch]) == upd(old(vals(d.activeNotesCounter[ch])), n, c + 1)
//@   ensures wf(d)
//@   ensures [C01,C03] old(InvCore(d)) && !old(has(d.noteTracker, code)) ==> InvCore(d)
//@   safety [C01,C05]
//@   modifies d.noteTracker[_], d.activeNotesCounter[ch][_], out, outLen, sounding

//@ func (*Device).NoteOff
//@   requires wf(d) && ev != nil
//@   let code := ev.Event.Code
//@   let tracked := has(d.noteTracker, code)
//@   let note := d.noteTracker[code][0]
//@   let ch := d.noteTracker[code][1]
//@   let c := d.activeNotesCounter[ch][note]
//@   let managed := d.config.CollisionMode != config.CollisionOff
//@   ensures [C02] !tracked ==> outLen == old(outLen) && out == old(out)
//@   ensures [C02,C03] tracked && (!managed || c == 1) ==> outLen == old(outLen) + 1 && out == upd(old(out), old(outLen), mkev(0x80 | ch, note, 0))
//@   ensures [C03] tracked && managed && c != 1 ==> outLen == old(outLen) && out == old(out)
//@   ensures [C01,C02] keys(d.noteTracker) == upd(old(keys(d.noteTracker)), code, false) && vals(d.noteTracker) == old(vals(d.noteTracker))
//@   ensures [C03] tracked ==> keys(d.activeNotesCounter[ch]) == upd(old(keys(d.activeNotesCounter[ch])), note, true) && vals(d.activeNotesCounter[ch]) == upd(old(vals(d.activeNotesCounter[ch])), note, c - 1)
//@   ensures [C03] !tracked ==> keys(d.activeNotesCounter[ch]) == old(keys(d.activeNotesCounter[ch])) && vals(d.activeNotesCounter[ch]) == old(vals(d.activeNotesCounter[ch]))
//@   ensures wf(d)
//@   ensures [C01,C03] old(InvCore(d)) ==> InvCore(d)
//@   safety [C01,C05]
//@   modifies d.noteTracker[_], d.activeNotesCounter[ch][_], out, outLen, sounding

// ---- analog (key-emulating axis) notes

//@ func (*Device).AnalogNoteOn
//@   requires wf(d) && ev != nil
//@   let s := int64(note) + 12 * int64(d.octave) + int64(d.semitone)
//@   let sounds := s >= 0 && s <= 127
//@   let n := byte(s)
//@   let ch := (d.channel + channelOffset) % 16
//@   ensures [C04,C08] !sounds ==> outLen == old(outLen) && out == old(out) && keys(d.analogNoteTracker) == old(keys(d.analogNoteTracker)) && vals(d.analogNoteTracker) == old(vals(d.analogNoteTracker))
//@   ensures [C04,C08] sounds ==> outLen == old(outLen) + 1 && out == upd(old(out), old(outLen), mkev(0x90 | ch, n, 64))
//@   ensures [C02,C08] sounds ==> keys(d.analogNoteTracker) == upd(old(keys(d.analogNoteTracker)), identifier, true) && vals(d.analogNoteTracker) == upd(old(vals(d.analogNoteTracker)), identifier, mkarr(n, ch))
//@   ensures wf(d)
//@   ensures [C01,C08] old(InvCore(d)) && !old(has(d.analogNoteTracker, identifier)) ==> InvCore(d)
//@   safety [C01,C05]
//@   modifies d.analogNoteTracker[_], out, outLen, sounding

//@ func (*Device).AnalogNoteOff
//@   requires wf(d) && ev != nil
//@   let tracked := has(d.analogNoteTracker, identifier)
//@   let note := d.analogNoteTracker[identifier][0]
//@   let ch := d.analogNoteTracker[identifier][1]
//@   ensures [C02,C08] !tracked ==> outLen == old(outLen) && out == old(out)
//@   ensures [C02,C08] tracked ==> outLen == old(outLen) + 1 && out == upd(old(out), old(outLen), mkev(0x80 | ch, note, 0))
//@   ensures [C01,C02,C08] keys(d.analogNoteTracker) == upd(old(keys(d.analogNoteTracker)), identifier, false) && vals(d.analogNoteTracker) == old(vals(d.analogNoteTracker))
//@   ensures wf(d)
//@   ensures [C01,C08] old(InvCore(d)) ==> InvCore(d)
//@   safety [C01,C05]
//@   modifies d.analogNoteTracker[_], out, outLen, sounding

// ---- state actions: they emit nothing (frame: out, outLen, sounding are not in `modifies`) and change only their own parameter

//@ func (*Device).OctaveDown
//@   requires wf(d)
//@   ensures [C04] old(d.octave) > -128 ==> d.octave == old(d.octave) - 1
//@   ensures wf(d)
//@   safety [C04]
//@   modifies d.octave

//@ func (*Device).OctaveUp
//@   requires wf(d)
//@   ensures [C04] old(d.octave) < 127 ==> d.octave == old(d.octave) + 1
//@   ensures wf(d)
//@   safety [C04]
//@   modifies d.octave

//@ func (*Device).OctaveReset
//@   requires wf(d)
//@   ensures [C04] d.octave == 0
//@   ensures wf(d)
//@   safety [C04]
//@   modifies d.octave

//@ func (*Device).SemitoneDown
//@   requires wf(d)
//@   ensures [C04] old(d.semitone) > -128 ==> d.semitone == old(d.semitone) - 1
//@   ensures wf(d)
//@   safety [C04]
//@   modifies d.semitone

//@ func (*Device).SemitoneUp
//@   requires wf(d)
//@   ensures [C04] old(d.semitone) < 127 ==> d.semitone == old(d.semitone) + 1
//@   ensures wf(d)
//@   safety [C04]
//@   modifies d.semitone

//@ func (*Device).SemitoneReset
//@   requires wf(d)
//@   ensures [C04] d.semitone == 0
//@   ensures wf(d)
//@   safety [C04]
//@   modifies d.semitone

//@ func (*Device).MappingDown
//@   requires wf(d)
//@   ensures [C04] d.mapping == (if old(d.mapping) == 0 then 0 else old(d.mapping) - 1)
//@   ensures wf(d)
//@   safety [C04]
//@   modifies d.mapping

//@ func (*Device).MappingUp
//@   requires wf(d)
//@   ensures [C04] d.mapping == (if old(d.mapping) == len(d.config.KeyMappings) - 1 then old(d.mapping) else old(d.mapping) + 1)
//@   ensures wf(d)
//@   safety [C04]
//@   modifies d.mapping

//@ func (*Device).MappingReset
//@   requires wf(d)
//@   ensures [C04] d.mapping == 0
//@   ensures wf(d)
//@   safety [C04]
//@   modifies d.mapping

//@ func (*Device).ChannelDown
//@   requires wf(d)
//@   ensures [C04] d.channel == (if old(d.channel) == 0 then 0 else old(d.channel) - 1)
//@   ensures wf(d)
//@   safety [C04]
//@   modifies d.channel

//@ func (*Device).ChannelUp
//@   requires wf(d)
//@   ensures [C04] d.channel == (if old(d.channel) == 15 then 15 else old(d.channel) + 1)
//@   ensures wf(d)
//@   safety [C04]
//@   modifies d.channel

//@ func (*Device).ChannelReset
//@   requires wf(d)
//@   ensures [C04] d.channel == 0
//@   ensures wf(d)
//@   safety [C04]
//@   modifies d.channel

//@ func (*Device).CCLearningOn
//@   requires wf(d)
//@   ensures [C07] d.ccLearning
//@   ensures wf(d)
//@   modifies d.ccLearning

//@ func (*Device).CCLearningOff
//@   requires wf(d)
//@   ensures [C07] !d.ccLearning
//@   ensures wf(d)
//@   modifies d.ccLearning

// the no-op registered for the multinote key press
//@ func NewDevice$1
//@   modifies nothing

//@ func (*Device).Multinote
//@   requires wf(d)
//@   ensures wf(d)
//@   modifies d.multiNote, heap("[]int"), heap("*[1]int")

// ---- panic (C13): All Notes Off + 128 explicit Note Offs on the current channel, nothing else; playing state untouched (frame)

//@ func (*Device).Panic
//@   requires wf(d)
//@   let ch := d.channel
//@   ensures [C13] outLen == old(outLen) + 129
//@   ensures [C13] out[old(outLen)] == mkev(0xB0 | ch, 123, 0)
//@   ensures [C13] forall n int :: 0 <= n && n < 128 ==> out[old(outLen) + 1 + n] == mkev(0x80 | ch, byte(n), 0)
//@   ensures [C13] forall i int :: uint64(i - old(outLen)) >= 129 ==> out[i] == old(out)[i]
//@   ensures [C01,C13] sounding == upd(old(sounding), ch, emptyset("set[byte]"))
//@   ensures wf(d)
//@   ensures [C01] old(InvCore(d)) ==> InvCore(d)
//@   loop 1 invariant note <= 128
//@   loop 1 invariant outLen == old(outLen) + 1 + int(note)
//@   loop 1 invariant out[old(outLen)] == mkev(0xB0 | ch, 123, 0)
//@   loop 1 invariant forall n int :: 0 <= n && n < int(note) ==> out[old(outLen) + 1 + n] == mkev(0x80 | ch, byte(n), 0)
//@   loop 1 invariant forall i int :: uint64(i - old(outLen)) >= uint64(1 + int(note)) ==> out[i] == old(out)[i]
//@   loop 1 invariant sounding == upd(old(sounding), ch, emptyset("set[byte]"))
//@   safety [C05,C13]
//@   modifies out, outLen, sounding, d.externalNoteTracker, heap("map[byte]map[byte]bool"), heap("map[byte]bool")

// ---- pair detection (C04): both keys of an up/down pair held resets that parameter, in this priority order

//@ pred pairMapping(d *Device) := d.actionTracker[config.MappingUp] && d.actionTracker[config.MappingDown]
//@ pred pairOctave(d *Device) := d.actionTracker[config.OctaveUp] && d.actionTracker[config.OctaveDown]
//@ pred pairSemitone(d *Device) := d.actionTracker[config.SemitoneUp] && d.actionTracker[config.SemitoneDown]
//@ pred pairChannel(d *Device) := d.actionTracker[config.ChannelUp] && d.actionTracker[config.ChannelDown]

//@ func (*Device).checkDoubleActions
//@   requires wf(d)
//@   let mp := pairMapping(d)
//@   let oc := !mp && pairOctave(d)
//@   let se := !mp && !oc && pairSemitone(d)
//@   let cn := !mp && !oc && !se && pairChannel(d)
//@   ensures [C04] result == (mp || oc || se || cn)
//@   ensures [C04] d.mapping == (if mp then 0 else old(d.mapping))
//@   ensures [C04] d.octave == (if oc then 0 else old(d.octave))
//@   ensures [C04] d.semitone == (if se then 0 else old(d.semitone))
//@   ensures [C04] d.channel == (if cn then 0 else old(d.channel))
//@   ensures wf(d)
//@   safety [C04]
//@   modifies d.mapping, d.octave, d.semitone, d.channel

// ---- exit sequence (C14)

//@ func (*Device).checkExitSequence
//@   requires wf(d)
//@   let seq := d.config.ExitSequence
//@   let complete := len(seq) > 0 && (forall i int :: 0 <= i && i < len(seq) ==> has(d.keyTracker, seq[i]))
//@   ensures [C14] result == complete
//@   ensures [C14] sigs == old(sigs) + (if complete then 1 else 0)
//@   loop 1 invariant 0 <= idx() && idx() <= len(d.config.ExitSequence)
//@   loop 1 invariant forall j int :: 0 <= j && j < idx() ==> has(d.keyTracker, d.config.ExitSequence[j])
//@   loop 1 invariant sigs == old(sigs)
//@   safety [C14]
//@   modifies sigs
