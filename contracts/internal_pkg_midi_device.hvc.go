//go:build verif

// Contracts for package device, read by the hv verifier (/verif). Comment-only file: compiles to nothing.
package device

// ---- ghost receiver state, updated at every send on Device.outputEvents (so new send sites are covered automatically)
//@ ghost var out fun[int]Ev
//@ ghost var outLen int
//@ ghost var sounding fun[byte]set[byte]
//@ ghost var sigs int
// last value the receiver got per controller number (C07; keyed by controller number only: the property's histories keep the channel fixed)
//@ ghost var ccv fun[byte]byte
// controller numbers that belong to a bidirectional axis (constant; C07's "distinct controller numbers")
//@ ghost var bidiCC set[byte]

//@ on send Device.outputEvents(e) { out = upd(out, outLen, evOf(e)); outLen = outLen + 1; sounding = rx(sounding, evOf(e)); ccv = rxcc(ccv, evOf(e)) }
//@ on send Device.sigs(s) { sigs = sigs + 1 }

// C05: every emitted message is a complete three-byte channel message with valid status and data bytes
//@ sendassert Device.outputEvents(e) [C05] len(e) == 3 && (e[0] & 0xF0 == 0x80 || e[0] & 0xF0 == 0x90 || e[0] & 0xF0 == 0xB0 || e[0] & 0xF0 == 0xE0) && e[1] <= 127 && e[2] <= 127

// receiver model: what a MIDI receiver has sounding after a message
//@ spec fn rx(s fun[byte]set[byte], e Ev) fun[byte]set[byte] :=
//@   let st := e.b0 & 0xF0 in let ch := e.b0 & 0x0F in
//@   if st == 0x90 && e.b2 > 0 then upd(s, ch, upd(s[ch], e.b1, true))
//@   else if st == 0x80 || st == 0x90 then upd(s, ch, upd(s[ch], e.b1, false))
//@   else if st == 0xB0 && e.b1 == 123 then upd(s, ch, emptyset("set[byte]"))
//@   else s

//@ spec fn rxcc(c fun[byte]byte, e Ev) fun[byte]byte := if e.b0 & 0xF0 == 0xB0 then upd(c, e.b1, e.b2) else c

//@ pred modeOK(m config.CollisionMode) :=
//@   m == config.CollisionOff || m == config.CollisionNoRepeat || m == config.CollisionInterrupt || m == config.CollisionRetrigger

// data-structure well-formedness: established by NewDevice, preserved by every method
//@ pred wf(d *Device) :=
//@   d != nil && d.channel < 16 && d.velocity >= 1 && d.velocity <= 127
//@   && d.mapping >= 0 && d.mapping < len(d.config.KeyMappings)
//@   && d.activeNotesCounter != nil && d.noteTracker != nil && d.analogNoteTracker != nil && d.keyTracker != nil
//@   && d.actionTracker != nil && d.ccZeroed != nil
//@   && d.eventProcessMutex != nil && d.externalTrackerMutex != nil && d.eventProcessMutex != d.externalTrackerMutex
//@   && (forall ch byte :: ch < 16 ==> has(d.activeNotesCounter, ch) && d.activeNotesCounter[ch] != nil)
//@   && (forall c1 byte, c2 byte :: c1 < 16 && c2 < 16 && c1 != c2 ==> d.activeNotesCounter[c1] != d.activeNotesCounter[c2])
//@   && (forall k evdev.EvCode :: has(d.noteTracker, k) ==> d.noteTracker[k][0] <= 127 && d.noteTracker[k][1] < 16)
//@   && (forall s string :: has(d.analogNoteTracker, s) ==> d.analogNoteTracker[s][0] <= 127 && d.analogNoteTracker[s][1] < 16)
//@   && modeOK(d.config.CollisionMode)

// history invariant (C01, C03): counters count the holders; everything sounding has a holder
//@ pred counted(d *Device) :=
//@   forall ch byte, n byte :: ch < 16 && n < 128 ==> d.activeNotesCounter[ch][n] == cnt(d.noteTracker, mkarr(n, ch))
//@ pred held(d *Device) :=
//@   forall ch byte, n byte :: sounding[ch][n] ==> ch < 16 && n < 128 && (d.activeNotesCounter[ch][n] >= 1 || cnt(d.analogNoteTracker, mkarr(n, ch)) >= 1)
//@ pred InvCore(d *Device) := wf(d) && counted(d) && held(d)

// ---- C16 (partial): lock discipline of the event thread as contracts.
// `locked` = mutexes currently held (set by Lock, cleared by Unlock); `concurrent` = other goroutines of this device may be
// running (set by a go statement, cleared by WaitGroup.Wait). Every write to a guarded field, or to a map held in one, is an
// obligation `locked[mutex] || !concurrent`; the methods below are only called in such a context (implicit precondition).
//@ ghost var locked set[Ref]
//@ ghost var concurrent bool
// goroutine life cycle: contexts handed to started goroutines / contexts cancelled; WaitGroup bookkeeping of the function
// that starts them (Add total, goroutines started with the group) and of each goroutine (Done calls)
//@ ghost var spawnedCtx set[Ref]
//@ ghost var cancelled set[Ref]
//@ ghost var wgSpawned int
//@ ghost var wgAdded int
//@ ghost var wgDone int
//@ spec fn cancelCtx(f Ref) Ref
//@ guarded_by Device.eventProcessMutex [C16]: noteTracker, analogNoteTracker, activeNotesCounter, lastAnalogValue, actionTracker, ccZeroed, keyTracker, octave, semitone, channel, velocity, multiNote, mapping, ccLearning
//@ guarded_by Device.externalTrackerMutex [C16]: externalNoteTracker
// monitor invariant of the MIDI-input tracker: at Lock the handle in d.externalNoteTracker is whatever the last critical
// section of another goroutine left there (Panic replaces the whole map), at Unlock it has to satisfy extOK again
//@ lockinv Device.externalTrackerMutex [C16,C17] self: extOK(self)
//@ lockctx [C16] locked[d.eventProcessMutex] || !concurrent : (*Device).NoteOn, (*Device).NoteOff, (*Device).AnalogNoteOn, (*Device).AnalogNoteOff, (*Device).OctaveDown, (*Device).OctaveUp, (*Device).OctaveReset, (*Device).SemitoneDown, (*Device).SemitoneUp, (*Device).SemitoneReset, (*Device).MappingDown, (*Device).MappingUp, (*Device).MappingReset, (*Device).ChannelDown, (*Device).ChannelUp, (*Device).ChannelReset, (*Device).CCLearningOn, (*Device).CCLearningOff, (*Device).Multinote, (*Device).Panic, (*Device).checkDoubleActions, (*Device).invokeActionPress, (*Device).invokeActionRelease, (*Device).handleKEYEvent, (*Device).handleABSEvent
// sync.Mutex is not re-entrant: the event thread takes externalTrackerMutex inside Panic, so nothing on the way there may hold it
//@ lockctx [C16] !locked[d.externalTrackerMutex] : (*Device).NoteOn, (*Device).NoteOff, (*Device).AnalogNoteOn, (*Device).AnalogNoteOff, (*Device).OctaveDown, (*Device).OctaveUp, (*Device).OctaveReset, (*Device).SemitoneDown, (*Device).SemitoneUp, (*Device).SemitoneReset, (*Device).MappingDown, (*Device).MappingUp, (*Device).MappingReset, (*Device).ChannelDown, (*Device).ChannelUp, (*Device).ChannelReset, (*Device).CCLearningOn, (*Device).CCLearningOff, (*Device).Multinote, (*Device).Panic, (*Device).checkDoubleActions, (*Device).invokeActionPress, (*Device).invokeActionRelease, (*Device).handleKEYEvent, (*Device).handleABSEvent

// ---- NoteOn / NoteOff

//@ func (*Device).NoteOn
//@   requires wf(d) && ev != nil
//@   let code := ev.Event.Code
//@   let mapped := has(d.config.KeyMappings[d.mapping].Midi[ev.Source.Name], code)
//@   let key := d.config.KeyMappings[d.mapping].Midi[ev.Source.Name][code]
//@   let s := int64(key.Note) + 12 * int64(d.octave) + int64(d.semitone)
//@   let sounds := mapped && s >= 0 && s <= 127
//@   let n := byte(s)
//@   let ch := (d.channel + key.ChannelOffset) % 16
//@   let c := d.activeNotesCounter[ch][n]
//@   let mode := d.config.CollisionMode
//@   let onEv := mkev(0x90 | ch, n, d.velocity)
//@   let offEv := mkev(0x80 | ch, n, 0)
//@   let quiet := mode == config.CollisionNoRepeat && c > 0
//@   let cut := mode == config.CollisionInterrupt && c > 0
//@   ensures [C04] !sounds ==> outLen == old(outLen) && out == old(out)
//@   ensures [C04] !sounds ==> keys(d.noteTracker) == old(keys(d.noteTracker)) && vals(d.noteTracker) == old(vals(d.noteTracker))
//@   ensures [C04] !sounds ==> keys(d.activeNotesCounter[ch]) == old(keys(d.activeNotesCounter[ch])) && vals(d.activeNotesCounter[ch]) == old(vals(d.activeNotesCounter[ch]))
//@   ensures [C03] sounds && quiet ==> outLen == old(outLen) && out == old(out)
//@   ensures [C03,C04] sounds && !quiet && !cut ==> outLen == old(outLen) + 1 && out == upd(old(out), old(outLen), onEv)
//@   ensures [C03,C04] sounds && cut ==> outLen == old(outLen) + 2 && out == upd(upd(old(out), old(outLen), offEv), old(outLen) + 1, onEv)
//@   ensures [C02,C03] sounds ==> keys(d.noteTracker) == upd(old(keys(d.noteTracker)), code, true) && vals(d.noteTracker) == upd(old(vals(d.noteTracker)), code, mkarr(n, ch))
//@   ensures [C03] sounds ==> keys(d.activeNotesCounter[ch]) == upd(old(keys(d.activeNotesCounter[ch])), n, true) && vals(d.activeNotesCounter[ch]) == upd(old(vals(d.activeNotesCounter[ch])), n, c + 1)
//@   ensures [C07] ccv == old(ccv)
//@   ensures wf(d)
//@   ensures [C01!,C03!] old(InvCore(d)) && !old(has(d.noteTracker, code)) ==> InvCore(d)
//@   safety [C01,C05]
//@   modifies d.noteTracker[_], d.activeNotesCounter[ch][_], out, outLen, sounding, ccv

//@ func (*Device).NoteOff
//@   requires wf(d) && ev != nil
//@   let code := ev.Event.Code
//@   let tracked := has(d.noteTracker, code)
//@   let note := d.noteTracker[code][0]
//@   let ch := d.noteTracker[code][1]
//@   let c := d.activeNotesCounter[ch][note]
//@   let managed := d.config.CollisionMode != config.CollisionOff
//@   ensures [C02] !tracked ==> outLen == old(outLen) && out == old(out)
//@   ensures [C02,C03] tracked && (!managed || c == 1) ==> outLen == old(outLen) + 1 && out == upd(old(out), old(outLen), mkev(0x80 | ch, note, 0))
//@   ensures [C03] tracked && managed && c != 1 ==> outLen == old(outLen) && out == old(out)
//@   ensures [C01,C02] keys(d.noteTracker) == upd(old(keys(d.noteTracker)), code, false) && vals(d.noteTracker) == old(vals(d.noteTracker))
//@   ensures [C03] tracked ==> keys(d.activeNotesCounter[ch]) == upd(old(keys(d.activeNotesCounter[ch])), note, true) && vals(d.activeNotesCounter[ch]) == upd(old(vals(d.activeNotesCounter[ch])), note, c - 1)
//@   ensures [C03] !tracked ==> keys(d.activeNotesCounter[ch]) == old(keys(d.activeNotesCounter[ch])) && vals(d.activeNotesCounter[ch]) == old(vals(d.activeNotesCounter[ch]))
//@   ensures [C07] ccv == old(ccv)
//@   ensures wf(d)
//@   ensures [C01!,C03!] old(InvCore(d)) ==> InvCore(d)
//@   safety [C01,C05]
//@   modifies d.noteTracker[_], d.activeNotesCounter[ch][_], out, outLen, sounding, ccv

// ---- analog (key-emulating axis) notes

//@ func (*Device).AnalogNoteOn
//@   requires wf(d) && ev != nil
//@   let s := int64(note) + 12 * int64(d.octave) + int64(d.semitone)
//@   let sounds := s >= 0 && s <= 127
//@   let n := byte(s)
//@   let ch := (d.channel + channelOffset) % 16
//@   ensures [C04,C08] !sounds ==> outLen == old(outLen) && out == old(out) && keys(d.analogNoteTracker) == old(keys(d.analogNoteTracker)) && vals(d.analogNoteTracker) == old(vals(d.analogNoteTracker))
//@   ensures [C04,C08] sounds ==> outLen == old(outLen) + 1 && out == upd(old(out), old(outLen), mkev(0x90 | ch, n, 64))
//@   ensures [C02,C08] sounds ==> keys(d.analogNoteTracker) == upd(old(keys(d.analogNoteTracker)), identifier, true) && vals(d.analogNoteTracker) == upd(old(vals(d.analogNoteTracker)), identifier, mkarr(n, ch))
//@   ensures [C07] ccv == old(ccv)
//@   ensures wf(d)
//@   ensures [C01!] old(InvCore(d)) && !old(has(d.analogNoteTracker, identifier)) ==> InvCore(d)
//@   safety [C01,C05]
//@   modifies d.analogNoteTracker[_], out, outLen, sounding, ccv

//@ func (*Device).AnalogNoteOff
//@   requires wf(d) && ev != nil
//@   let tracked := has(d.analogNoteTracker, identifier)
//@   let note := d.analogNoteTracker[identifier][0]
//@   let ch := d.analogNoteTracker[identifier][1]
//@   ensures [C02,C08] !tracked ==> outLen == old(outLen) && out == old(out)
//@   ensures [C02,C08] tracked ==> outLen == old(outLen) + 1 && out == upd(old(out), old(outLen), mkev(0x80 | ch, note, 0))
//@   ensures [C01,C02,C08] keys(d.analogNoteTracker) == upd(old(keys(d.analogNoteTracker)), identifier, false) && vals(d.analogNoteTracker) == old(vals(d.analogNoteTracker))
//@   ensures [C07] ccv == old(ccv)
//@   ensures wf(d)
//@   ensures [C01!] old(InvCore(d)) ==> InvCore(d)
//@   safety [C01,C05]
//@   modifies d.analogNoteTracker[_], out, outLen, sounding, ccv

// ---- state actions: they emit nothing (frame: out, outLen, sounding, ccv are not in `modifies`) and change only their own parameter

//@ func (*Device).OctaveDown
//@   requires wf(d)
//@   ensures [C04] old(d.octave) > -128 ==> d.octave == old(d.octave) - 1
//@   ensures wf(d)
//@   safety [C04]
//@   modifies d.octave

//@ func (*Device).OctaveUp
//@   requires wf(d)
//@   ensures [C04] old(d.octave) < 127 ==> d.octave == old(d.octave) + 1
//@   ensures wf(d)
//@   safety [C04]
//@   modifies d.octave

//@ func (*Device).OctaveReset
//@   requires wf(d)
//@   ensures [C04] d.octave == 0
//@   ensures wf(d)
//@   safety [C04]
//@   modifies d.octave

//@ func (*Device).SemitoneDown
//@   requires wf(d)
//@   ensures [C04] old(d.semitone) > -128 ==> d.semitone == old(d.semitone) - 1
//@   ensures wf(d)
//@   safety [C04]
//@   modifies d.semitone

//@ func (*Device).SemitoneUp
//@   requires wf(d)
//@   ensures [C04] old(d.semitone) < 127 ==> d.semitone == old(d.semitone) + 1
//@   ensures wf(d)
//@   safety [C04]
//@   modifies d.semitone

//@ func (*Device).SemitoneReset
//@   requires wf(d)
//@   ensures [C04] d.semitone == 0
//@   ensures wf(d)
//@   safety [C04]
//@   modifies d.semitone

//@ func (*Device).MappingDown
//@   requires wf(d)
//@   ensures [C04] d.mapping == (if old(d.mapping) == 0 then 0 else old(d.mapping) - 1)
//@   ensures wf(d)
//@   safety [C04]
//@   modifies d.mapping

//@ func (*Device).MappingUp
//@   requires wf(d)
//@   ensures [C04] d.mapping == (if old(d.mapping) == len(d.config.KeyMappings) - 1 then old(d.mapping) else old(d.mapping) + 1)
//@   ensures wf(d)
//@   safety [C04]
//@   modifies d.mapping

//@ func (*Device).MappingReset
//@   requires wf(d)
//@   ensures [C04] d.mapping == 0
//@   ensures wf(d)
//@   safety [C04]
//@   modifies d.mapping

//@ func (*Device).ChannelDown
//@   requires wf(d)
//@   ensures [C04] d.channel == (if old(d.channel) == 0 then 0 else old(d.channel) - 1)
//@   ensures wf(d)
//@   safety [C04]
//@   modifies d.channel

//@ func (*Device).ChannelUp
//@   requires wf(d)
//@   ensures [C04] d.channel == (if old(d.channel) == 15 then 15 else old(d.channel) + 1)
//@   ensures wf(d)
//@   safety [C04]
//@   modifies d.channel

//@ func (*Device).ChannelReset
//@   requires wf(d)
//@   ensures [C04] d.channel == 0
//@   ensures wf(d)
//@   safety [C04]
//@   modifies d.channel

//@ func (*Device).CCLearningOn
//@   requires wf(d)
//@   ensures [C07] d.ccLearning
//@   ensures wf(d)
//@   modifies d.ccLearning

//@ func (*Device).CCLearningOff
//@   requires wf(d)
//@   ensures [C07] !d.ccLearning
//@   ensures wf(d)
//@   modifies d.ccLearning

// the no-op registered for the multinote key press
//@ func NewDevice$1
//@   modifies nothing

//@ func (*Device).Multinote
//@   requires wf(d)
//@   ensures wf(d)
//@   modifies d.multiNote, heap("[]int"), heap("*[1]int")

// ---- panic (C13): All Notes Off + 128 explicit Note Offs on the current channel, nothing else; playing state untouched (frame)

// the output of one panic on channel ch: CC 123 then Note Off for each of the 128 notes; nothing else is touched
//@ pred panicOut(o0 fun[int]Ev, l0 int, o1 fun[int]Ev, l1 int, s0 fun[byte]set[byte], s1 fun[byte]set[byte], ch byte) :=
//@   l1 == l0 + 129 && o1[l0] == mkev(0xB0 | ch, 123, 0)
//@   && (forall n int :: 0 <= n && n < 128 ==> o1[l0 + 1 + n] == mkev(0x80 | ch, byte(n), 0))
//@   && (forall i int :: uint64(i - l0) >= 129 ==> o1[i] == o0[i])
//@   && s1 == upd(s0, ch, emptyset("set[byte]"))

//@ func (*Device).Panic
//@   ensures [C16] locked == old(locked)
//@   requires wf(d)
//@   let ch := d.channel
//@   ensures [C01,C13] panicOut(old(out), old(outLen), out, outLen, old(sounding), sounding, ch)
//@   ensures [C07] ccv == upd(old(ccv), 123, 0)
//@   loop 1 invariant ccv == upd(old(ccv), 123, 0)
//@   ensures [C17] extOK(d) && (forall c byte :: c < 16 ==> empty(d.externalNoteTracker[c]))
//@   loop 2 invariant [C17] inmap != nil && (forall c byte :: c < i ==> has(inmap, c) && inmap[c] != nil && empty(inmap[c]) && allocated(inmap[c])) && i <= 16
//@   ensures [C16] d.externalTrackerMutex != d.eventProcessMutex ==> (locked[d.eventProcessMutex] <==> old(locked[d.eventProcessMutex]))
//@   ensures wf(d)
//@   ensures [C01!] old(InvCore(d)) ==> InvCore(d)
//@   loop 1 invariant note <= 128
//@   loop 1 invariant outLen == old(outLen) + 1 + int(note)
//@   loop 1 invariant out[old(outLen)] == mkev(0xB0 | ch, 123, 0)
//@   loop 1 invariant forall n int :: 0 <= n && n < int(note) ==> out[old(outLen) + 1 + n] == mkev(0x80 | ch, byte(n), 0)
//@   loop 1 invariant forall i int :: uint64(i - old(outLen)) >= uint64(1 + int(note)) ==> out[i] == old(out)[i]
//@   loop 1 invariant sounding == upd(old(sounding), ch, emptyset("set[byte]"))
//@   safety [C05,C13]
//@   modifies out, outLen, sounding, ccv, d.externalNoteTracker, locked

// ---- pair detection (C04): both keys of an up/down pair held resets that parameter, in this priority order

//@ pred pairMapping(d *Device) := d.actionTracker[config.MappingUp] && d.actionTracker[config.MappingDown]
//@ pred pairOctave(d *Device) := d.actionTracker[config.OctaveUp] && d.actionTracker[config.OctaveDown]
//@ pred pairSemitone(d *Device) := d.actionTracker[config.SemitoneUp] && d.actionTracker[config.SemitoneDown]
//@ pred pairChannel(d *Device) := d.actionTracker[config.ChannelUp] && d.actionTracker[config.ChannelDown]

//@ func (*Device).checkDoubleActions
//@   requires wf(d)
//@   let mp := pairMapping(d)
//@   let oc := !mp && pairOctave(d)
//@   let se := !mp && !oc && pairSemitone(d)
//@   let cn := !mp && !oc && !se && pairChannel(d)
//@   ensures [C04] result == (mp || oc || se || cn)
//@   ensures [C04] d.mapping == (if mp then 0 else old(d.mapping))
//@   ensures [C04] d.octave == (if oc then 0 else old(d.octave))
//@   ensures [C04] d.semitone == (if se then 0 else old(d.semitone))
//@   ensures [C04] d.channel == (if cn then 0 else old(d.channel))
//@   ensures wf(d)
//@   safety [C04]
//@   modifies d.mapping, d.octave, d.semitone, d.channel

// ---- exit sequence (C14)

//@ func (*Device).checkExitSequence
//@   requires wf(d)
//@   let seq := d.config.ExitSequence
//@   let complete := len(seq) > 0 && (forall i int :: 0 <= i && i < len(seq) ==> has(d.keyTracker, seq[i]))
//@   ensures [C14] result == complete
//@   ensures [C14] sigs == old(sigs) + (if complete then 1 else 0)
//@   loop 1 invariant 0 <= idx() && idx() <= len(d.config.ExitSequence)
//@   loop 1 invariant forall j int :: 0 <= j && j < idx() ==> has(d.keyTracker, d.config.ExitSequence[j])
//@   loop 1 invariant sigs == old(sigs)
//@   safety [C14]
//@   modifies sigs

// ---- action dispatch tables (established by NewDevice, never written afterwards)

//@ pred tableOK(d *Device) :=
//@   d.actionsPress != nil && d.actionsRelease != nil
//@   && (forall a config.Action :: has(d.actionsPress, a) <==> (a == config.Panic || a == config.MappingUp || a == config.MappingDown
//@        || a == config.OctaveUp || a == config.OctaveDown || a == config.SemitoneUp || a == config.SemitoneDown
//@        || a == config.ChannelUp || a == config.ChannelDown || a == config.Multinote || a == config.Learning))
//@   && d.actionsPress[config.Panic] == fnref("(*Device).Panic")
//@   && d.actionsPress[config.MappingUp] == fnref("(*Device).MappingUp") && d.actionsPress[config.MappingDown] == fnref("(*Device).MappingDown")
//@   && d.actionsPress[config.OctaveUp] == fnref("(*Device).OctaveUp") && d.actionsPress[config.OctaveDown] == fnref("(*Device).OctaveDown")
//@   && d.actionsPress[config.SemitoneUp] == fnref("(*Device).SemitoneUp") && d.actionsPress[config.SemitoneDown] == fnref("(*Device).SemitoneDown")
//@   && d.actionsPress[config.ChannelUp] == fnref("(*Device).ChannelUp") && d.actionsPress[config.ChannelDown] == fnref("(*Device).ChannelDown")
//@   && d.actionsPress[config.Multinote] == fnref("NewDevice$1") && d.actionsPress[config.Learning] == fnref("(*Device).CCLearningOn")
//@   && (forall a config.Action :: has(d.actionsRelease, a) <==> a == config.Learning)
//@   && d.actionsRelease[config.Learning] == fnref("(*Device).CCLearningOff")

//@ func (*Device).invokeActionPress
//@   ensures [C16] locked == old(locked)
//@   requires wf(d) && tableOK(d)
//@   ensures [C04] d.octave == (if action == config.OctaveUp && old(d.octave) < 127 then old(d.octave) + 1 else if action == config.OctaveDown && old(d.octave) > -128 then old(d.octave) - 1 else d.octave)
//@   ensures [C04] action != config.OctaveUp && action != config.OctaveDown ==> d.octave == old(d.octave)
//@   ensures [C04] d.semitone == (if action == config.SemitoneUp && old(d.semitone) < 127 then old(d.semitone) + 1 else if action == config.SemitoneDown && old(d.semitone) > -128 then old(d.semitone) - 1 else d.semitone)
//@   ensures [C04] action != config.SemitoneUp && action != config.SemitoneDown ==> d.semitone == old(d.semitone)
//@   ensures [C04] d.channel == (if action == config.ChannelUp && old(d.channel) != 15 then old(d.channel) + 1 else if action == config.ChannelDown && old(d.channel) != 0 then old(d.channel) - 1 else old(d.channel))
//@   ensures [C04] d.mapping == (if action == config.MappingUp && old(d.mapping) != len(d.config.KeyMappings) - 1 then old(d.mapping) + 1 else if action == config.MappingDown && old(d.mapping) != 0 then old(d.mapping) - 1 else old(d.mapping))
//@   ensures [C07] d.ccLearning == (action == config.Learning || old(d.ccLearning))
//@   ensures [C02,C13] action != config.Panic ==> outLen == old(outLen) && out == old(out) && sounding == old(sounding)
//@   ensures [C13] action == config.Panic ==> panicOut(old(out), old(outLen), out, outLen, old(sounding), sounding, old(d.channel))
//@   ensures [C07] ccv == old(ccv) || ccv == upd(old(ccv), 123, 0)
//@   ensures [C16] d.externalTrackerMutex != d.eventProcessMutex ==> (locked[d.eventProcessMutex] <==> old(locked[d.eventProcessMutex]))
//@   ensures wf(d)
//@   ensures [C01!] old(InvCore(d)) ==> InvCore(d)
//@   safety [C04,C13]
//@   modifies d.octave, d.semitone, d.channel, d.mapping, d.ccLearning, out, outLen, sounding, ccv, d.externalNoteTracker, locked

//@ func (*Device).invokeActionRelease
//@   requires wf(d) && tableOK(d)
//@   ensures [C07] d.ccLearning == (action != config.Learning && old(d.ccLearning))
//@   ensures wf(d)
//@   safety [C04]
//@   modifies d.ccLearning

// ---- bidirectional CC (C07): a controller marked as zeroed is zero at the receiver, and only controllers of bidirectional axes are ever marked
//@ pred zeroedOK(d *Device) := forall x byte :: d.ccZeroed[x] ==> ccv[x] == 0 && bidiCC[x] && x != 123

// ---- key events

// what the kernel delivers for a key (the property's own environment assumption): press/release only, a press only of a key that is up
//@ pred envKey(d *Device, ie *input.InputEvent) :=
//@   ie != nil && (ie.Event.Value == 0 || ie.Event.Value == 1) && (ie.Event.Value == 1 ==> !has(d.keyTracker, ie.Event.Code))

// (I1) only held keys are tracked; (I2) action keys never hold notes
//@ pred keysInv(d *Device) :=
//@   (forall k evdev.EvCode :: has(d.noteTracker, k) ==> has(d.keyTracker, k))
//@   && (forall k evdev.EvCode :: has(d.noteTracker, k) ==> !has(d.config.ActionMapping, k))
//@ pred Inv(d *Device) := InvCore(d) && keysInv(d)

//@ func (*Device).handleKEYEvent
//@   ensures [C16] locked == old(locked)
//@   requires wf(d) && tableOK(d) && ie != nil && (ie.Event.Value == 0 || ie.Event.Value == 1)
//@   let code := ie.Event.Code
//@   let press := ie.Event.Value == 1
//@   let isAction := has(d.config.ActionMapping, code)
//@   let action := d.config.ActionMapping[code]
//@   let kt1 := upd(keys(d.keyTracker), code, press)
//@   let seq := d.config.ExitSequence
//@   let exits := press && len(seq) > 0 && (forall i int :: 0 <= i && i < len(seq) ==> kt1[seq[i]])
//@   let tracked := has(d.noteTracker, code)
//@   let tn := d.noteTracker[code][0]
//@   let tc := d.noteTracker[code][1]
//@   let mapped := has(d.config.KeyMappings[d.mapping].Midi[ie.Source.Name], code)
//@   let key := d.config.KeyMappings[d.mapping].Midi[ie.Source.Name][code]
//@   let s := int64(key.Note) + 12 * int64(d.octave) + int64(d.semitone)
//@   let sounds := mapped && s >= 0 && s <= 127
//@   let n := byte(s)
//@   let ch := (d.channel + key.ChannelOffset) % 16
//@   let c := d.activeNotesCounter[ch][n]
//@   let quiet := d.config.CollisionMode == config.CollisionNoRepeat && c > 0
//@   let cut := d.config.CollisionMode == config.CollisionInterrupt && c > 0
//@   let mU := action == config.MappingUp || d.actionTracker[config.MappingUp]
//@   let mD := action == config.MappingDown || d.actionTracker[config.MappingDown]
//@   let oU := action == config.OctaveUp || d.actionTracker[config.OctaveUp]
//@   let oD := action == config.OctaveDown || d.actionTracker[config.OctaveDown]
//@   let sU := action == config.SemitoneUp || d.actionTracker[config.SemitoneUp]
//@   let sD := action == config.SemitoneDown || d.actionTracker[config.SemitoneDown]
//@   let cU := action == config.ChannelUp || d.actionTracker[config.ChannelUp]
//@   let cD := action == config.ChannelDown || d.actionTracker[config.ChannelDown]
//@   let pair := (mU && mD) || (oU && oD) || (sU && sD) || (cU && cD)
//@   ensures [C01,C14] keys(d.keyTracker) == kt1
//@   ensures [C14] sigs == old(sigs) + (if exits then 1 else 0)
//@   ensures [C14] exits ==> outLen == old(outLen) && out == old(out) && d.octave == old(d.octave) && d.semitone == old(d.semitone) && d.channel == old(d.channel) && d.mapping == old(d.mapping) && d.ccLearning == old(d.ccLearning)
//@   ensures [C14] exits ==> keys(d.noteTracker) == old(keys(d.noteTracker)) && keys(d.actionTracker) == old(keys(d.actionTracker)) && vals(d.actionTracker) == old(vals(d.actionTracker))
// the action tracker says which action keys are held: the pair resets of C04 are decided from it, so it has to follow
// every press and release of an action key exactly (also on the press that completes a pair)
//@   ensures [C04] isAction && press && !exits ==> keys(d.actionTracker) == upd(old(keys(d.actionTracker)), action, true) && vals(d.actionTracker) == upd(old(vals(d.actionTracker)), action, true)
//@   ensures [C04] isAction && !press ==> keys(d.actionTracker) == upd(old(keys(d.actionTracker)), action, false) && vals(d.actionTracker) == old(vals(d.actionTracker))
//@   ensures [C04] !isAction ==> keys(d.actionTracker) == old(keys(d.actionTracker)) && vals(d.actionTracker) == old(vals(d.actionTracker))
//@   ensures [C02] isAction && !(press && action == config.Panic) ==> outLen == old(outLen) && out == old(out)
//@   ensures [C02] !press && !isAction && !tracked ==> outLen == old(outLen) && out == old(out)
//@   ensures [C02] !press && !isAction && tracked ==> (outLen == old(outLen) && out == old(out)) || (outLen == old(outLen) + 1 && out == upd(old(out), old(outLen), mkev(0x80 | tc, tn, 0)))
//@   ensures [C02] !press && !isAction ==> d.octave == old(d.octave) && d.semitone == old(d.semitone) && d.channel == old(d.channel) && d.mapping == old(d.mapping)
//@   ensures [C01,C02] !press && !isAction ==> !has(d.noteTracker, code)
//@   ensures [C04] press && !isAction && !exits && !sounds ==> outLen == old(outLen) && out == old(out)
//@   ensures [C04] press && !isAction && !exits && sounds && !quiet && !cut ==> outLen == old(outLen) + 1 && out == upd(old(out), old(outLen), mkev(0x90 | ch, n, d.velocity))
//@   ensures [C04] press && !isAction && !exits && sounds && cut ==> outLen == old(outLen) + 2 && out[old(outLen) + 1] == mkev(0x90 | ch, n, d.velocity)
//@   ensures [C04] press && !isAction ==> d.octave == old(d.octave) && d.semitone == old(d.semitone) && d.channel == old(d.channel) && d.mapping == old(d.mapping) && d.velocity == old(d.velocity)
//@   ensures [C04] press && isAction && !exits && mU && mD ==> d.mapping == 0 && d.octave == old(d.octave) && d.semitone == old(d.semitone) && d.channel == old(d.channel)
//@   ensures [C04] press && isAction && !exits && !(mU && mD) && oU && oD ==> d.octave == 0 && d.mapping == old(d.mapping) && d.semitone == old(d.semitone) && d.channel == old(d.channel)
//@   ensures [C04] press && isAction && !exits && !(mU && mD) && !(oU && oD) && sU && sD ==> d.semitone == 0 && d.mapping == old(d.mapping) && d.octave == old(d.octave) && d.channel == old(d.channel)
//@   ensures [C04] press && isAction && !exits && !(mU && mD) && !(oU && oD) && !(sU && sD) && cU && cD ==> d.channel == 0 && d.mapping == old(d.mapping) && d.octave == old(d.octave) && d.semitone == old(d.semitone)
//@   ensures [C02,C04] press && isAction && !exits && pair ==> outLen == old(outLen) && out == old(out)
//@   ensures [C04] press && isAction && !exits && !pair && action == config.OctaveUp && old(d.octave) < 127 ==> d.octave == old(d.octave) + 1
//@   ensures [C04] press && isAction && !exits && !pair && action == config.OctaveDown && old(d.octave) > -128 ==> d.octave == old(d.octave) - 1
//@   ensures [C04] press && isAction && !exits && !pair && action == config.SemitoneUp && old(d.semitone) < 127 ==> d.semitone == old(d.semitone) + 1
//@   ensures [C04] press && isAction && !exits && !pair && action == config.SemitoneDown && old(d.semitone) > -128 ==> d.semitone == old(d.semitone) - 1
//@   ensures [C04] press && isAction && !exits && !pair && action == config.ChannelUp ==> d.channel == (if old(d.channel) == 15 then 15 else old(d.channel) + 1)
//@   ensures [C04] press && isAction && !exits && !pair && action == config.ChannelDown ==> d.channel == (if old(d.channel) == 0 then 0 else old(d.channel) - 1)
//@   ensures [C04] press && isAction && !exits && !pair && action == config.MappingUp ==> d.mapping == (if old(d.mapping) == len(d.config.KeyMappings) - 1 then old(d.mapping) else old(d.mapping) + 1)
//@   ensures [C04] press && isAction && !exits && !pair && action == config.MappingDown ==> d.mapping == (if old(d.mapping) == 0 then 0 else old(d.mapping) - 1)
//@   ensures [C13] press && isAction && !exits && !pair && action == config.Panic ==> panicOut(old(out), old(outLen), out, outLen, old(sounding), sounding, old(d.channel))
//@   ensures [C13] press && isAction && !exits && !pair && action == config.Panic ==> keys(d.noteTracker) == old(keys(d.noteTracker)) && vals(d.noteTracker) == old(vals(d.noteTracker)) && d.octave == old(d.octave) && d.semitone == old(d.semitone) && d.channel == old(d.channel) && d.mapping == old(d.mapping)
//@   ensures [C07] old(zeroedOK(d)) ==> zeroedOK(d)
//@   ensures wf(d) && tableOK(d)
//@   ensures [C01!] old(Inv(d)) && old(envKey(d, ie)) ==> Inv(d)
//@   safety [C01,C05]
//@   modifies d.keyTracker[_], d.actionTracker[_], d.noteTracker[_], d.activeNotesCounter[_][_], d.octave, d.semitone, d.channel, d.mapping, d.ccLearning, d.multiNote, heap("[]int"), heap("*[1]int"), out, outLen, sounding, ccv, sigs, d.externalNoteTracker, locked

// ---- axis events

// what the kernel delivers for an axis: a position inside the range the device reports for that axis
//@ pred envAbs(d *Device, ie *input.InputEvent) :=
//@   ie != nil && (let info := d.InputDevice.AbsInfos[ext("(*input.DeviceInfo).Event", ie.Source.DeviceInfo, "string")][ie.Event.Code] in
//@     info.Minimum <= ie.Event.Value && ie.Event.Value <= info.Maximum && info.Maximum > 0)

// controller numbers of every configured cc axis are valid data bytes (what ParseData's store-site assertions guarantee)
//@ pred cfgRanges(c config.Config) :=
//@   forall m int, sub string, code evdev.EvCode :: 0 <= m && m < len(c.KeyMappings) && has(c.KeyMappings[m].Analog, sub) && has(vals(c.KeyMappings[m].Analog)[sub], code) ==>
//@     vals(vals(c.KeyMappings[m].Analog)[sub])[code].CC <= 119 && vals(vals(c.KeyMappings[m].Analog)[sub])[code].CCNeg <= 119

// every sub-handler with analog mappings has a default deadzone in the same mapping (so the deadzone lookup never falls through to panic)
//@ pred cfgDz(c config.Config) :=
//@   forall m int, sub string :: 0 <= m && m < len(c.KeyMappings) && has(c.KeyMappings[m].Analog, sub) ==> has(c.KeyMappings[m].DefaultDeadzone, sub)

// every sub-handler that has analog mappings in some mapping owns a (non-nil) last-value map: handleABSEvent never writes a nil map
//@ pred lavOK(c config.Config, lav map[string]map[evdev.EvCode]float64) :=
//@   lav != nil && (forall m int, sub string :: 0 <= m && m < len(c.KeyMappings) && has(c.KeyMappings[m].Analog, sub) ==> has(lav, sub) && vals(lav)[sub] != nil)

//@ func (*Device).handleABSEvent
//@   ensures [C16] locked == old(locked)
//@   requires wf(d) && tableOK(d) && ie != nil && cfgRanges(d.config) && cfgDz(d.config) && lavOK(d.config, d.lastAnalogValue) && envAbs(d, ie)
//@   ensures lavOK(d.config, d.lastAnalogValue)
// an axis event is dropped only if its shaped position is EXACTLY the one last accepted; otherwise it is processed, which is
// observable as a changed stored position. The clauses below speak about the processed event only; this one closes the gap
// for a change that returns early: if the stored position is what it was, then the position just computed (the local
// `value` at that return) equals it.
//@   ensures [C06,C07,C08] local(analogOk) && d.lastAnalogValue[ie.Source.Name][ie.Event.Code] == old(d.lastAnalogValue[ie.Source.Name][ie.Event.Code]) ==> local(value) == old(d.lastAnalogValue[ie.Source.Name][ie.Event.Code])
//@   cut load(.DeadzoneAtCenter) [C05,C06] !isNaN(value) && value >= -1.0 && value <= 1.0 && (!canBeNegative ==> value >= 0.0) && (canBeNegative <==> min < 0)
//@   cut load(.DeadzoneAtCenter) [C06] (ie.Event.Value == max ==> value == 1.0) && (ie.Event.Value == min && min < 0 ==> value == -1.0) && (ie.Event.Value == 0 ==> value == 0.0)
//@   cut load(.Deadzones) [C05,C06] !isNaN(value) && value >= -1.0 && value <= 1.0 && (!canBeNegative ==> value >= 0.0)
//@   cut load(.Deadzones) [C06] (ie.Event.Value == max ==> value == 1.0) && (ie.Event.Value == min && min < 0 ==> value == -1.0) && (ie.Event.Value == 0 && min < 0 ==> value == 0.0) && (ie.Event.Value == 0 && min >= 0 ==> value == (if analog.DeadzoneAtCenter then -1.0 else 0.0))
//@   cut load(.lastAnalogValue) [C05,C06] (isNaN(value) || value >= -1.0078) && (isNaN(value) || value <= 1.0038) && (isNaN(value) || canBeNegative || value >= 0.0)
// end stops map exactly to the ends, the rest position exactly to 0, for every deadzone in [0,1)
//@   cut load(.lastAnalogValue) [C06] deadzone >= 0.0 && deadzone < 1.0 ==> (ie.Event.Value == max ==> value == 1.0) && (ie.Event.Value == min && min < 0 ==> value == -1.0) && (ie.Event.Value == 0 && min < 0 ==> value == 0.0) && (ie.Event.Value == 0 && min >= 0 && !analog.DeadzoneAtCenter ==> value == 0.0) && (ie.Event.Value == 0 && min >= 0 && analog.DeadzoneAtCenter ==> value == -1.0)
//@   cut load(.MappingType) [C05,C06] (isNaN(value) || value >= -1.0078) && (isNaN(value) || value <= 1.0078) && (isNaN(value) || canBeNegative || value >= -0.0039) && (isNaN(value) || canBeNegative || value <= 1.0038)
//@   cut load(.MappingType) [C06] deadzone >= 0.0 && deadzone < 1.0 && !analog.FlipAxis ==> (ie.Event.Value == max ==> value == 1.0) && (ie.Event.Value == min && min < 0 ==> value == -1.0) && (ie.Event.Value == 0 && min < 0 ==> value == 0.0) && (ie.Event.Value == 0 && min >= 0 && !analog.DeadzoneAtCenter ==> value == 0.0)
//@   cut load(.MappingType) [C06] deadzone >= 0.0 && deadzone < 1.0 && analog.FlipAxis && canBeNegative ==> (ie.Event.Value == max ==> value == -1.0) && (ie.Event.Value == min && min < 0 ==> value == 1.0)
//@   cut load(.MappingType) [C06] deadzone >= 0.0 && deadzone < 1.0 && analog.FlipAxis && !canBeNegative ==> (ie.Event.Value == max ==> value == 0.0) && (ie.Event.Value == 0 && !analog.DeadzoneAtCenter ==> value == 1.0)
//@   ensures wf(d) && tableOK(d)
//@   ensures [C01!] old(Inv(d)) ==> Inv(d)
// ---- C07: bidirectional CC. v is the shaped, flipped value the switch sees; neg says which side it is on.
//@   let a := d.config.KeyMappings[d.mapping].Analog[ie.Source.Name][ie.Event.Code]
//@   let isBidiCC := has(d.config.KeyMappings[d.mapping].Analog[ie.Source.Name], ie.Event.Code) && a.MappingType == config.AnalogCC && a.Bidirectional
//@   let chP := (d.channel + a.ChannelOffset) % 16
//@   let chN := (d.channel + a.ChannelOffsetNeg) % 16
//@   ensures [C07] isBidiCC && outLen != old(outLen) && bidiSideNeg(canBeNegative, local(value)) ==> out[old(outLen)].b0 == 0xB0 | chN && out[old(outLen)].b1 == a.CCNeg
//@   ensures [C07] isBidiCC && outLen != old(outLen) && !bidiSideNeg(canBeNegative, local(value)) ==> out[old(outLen)].b0 == 0xB0 | chP && out[old(outLen)].b1 == a.CC
//@   ensures [C07] isBidiCC && outLen != old(outLen) && bidiSideNeg(canBeNegative, local(value)) && !old(d.ccZeroed[a.CC]) ==> outLen == old(outLen) + 2 && out[old(outLen) + 1] == mkev(0xB0 | chP, a.CC, 0)
//@   ensures [C07] isBidiCC && outLen != old(outLen) && !bidiSideNeg(canBeNegative, local(value)) && !old(d.ccZeroed[a.CCNeg]) ==> outLen == old(outLen) + 2 && out[old(outLen) + 1] == mkev(0xB0 | chN, a.CCNeg, 0)
//@   ensures [C07] isBidiCC && outLen != old(outLen) && bidiSideNeg(canBeNegative, local(value)) && old(d.ccZeroed[a.CC]) ==> outLen == old(outLen) + 1
//@   ensures [C07] isBidiCC && outLen != old(outLen) && !bidiSideNeg(canBeNegative, local(value)) && old(d.ccZeroed[a.CCNeg]) ==> outLen == old(outLen) + 1
//@   ensures [C06,C07] isBidiCC && a.CC != a.CCNeg && old(zeroedOK(d)) && outLen != old(outLen) ==> (bidiSideNeg(canBeNegative, local(value)) ==> ccv[a.CC] == 0) && (!bidiSideNeg(canBeNegative, local(value)) ==> ccv[a.CCNeg] == 0)
//@   ensures [C07] a.MappingType == config.AnalogCC && old(d.ccLearning) && !(local(value) < -0.5 || local(value) > 0.5) ==> outLen == old(outLen) && keys(d.ccZeroed) == old(keys(d.ccZeroed)) && vals(d.ccZeroed) == old(vals(d.ccZeroed))
//@   ensures [C06,C07] isBidiCC && a.CC != a.CCNeg && bidiCC[a.CC] && bidiCC[a.CCNeg] && a.CC != 123 && a.CCNeg != 123 && old(zeroedOK(d)) ==> zeroedOK(d)
// ---- C06: exact values at the ends and at rest. v = local(value) is the shaped, flipped value the switch sees
// (the cut facts above pin it to exactly +-1.0 at the physical end stops and 0.0 at rest, for every deadzone in [0,1)).
//@   let isCC := has(d.config.KeyMappings[d.mapping].Analog[ie.Source.Name], ie.Event.Code) && a.MappingType == config.AnalogCC
//@   let isPB := has(d.config.KeyMappings[d.mapping].Analog[ie.Source.Name], ie.Event.Code) && a.MappingType == config.AnalogPitchBend
// every accepted position of a controller or pitch-bend axis IS transmitted (the clauses about what is sent are conditional
// on something being sent): accepted = the stored position changed; the only exception is the learning gate
//@   let lav0 := d.lastAnalogValue[ie.Source.Name][ie.Event.Code]
//@   ensures [C06,C07] isCC && local(analogOk) && !(d.lastAnalogValue[ie.Source.Name][ie.Event.Code] == lav0) && !old(d.ccLearning) ==> outLen != old(outLen)
//@   ensures [C06,C07] isCC && local(analogOk) && !(d.lastAnalogValue[ie.Source.Name][ie.Event.Code] == lav0) && (local(value) < -0.5 || local(value) > 0.5) ==> outLen != old(outLen)
//@   ensures [C06] isPB && local(analogOk) && !(d.lastAnalogValue[ie.Source.Name][ie.Event.Code] == lav0) && !old(d.ccLearning) ==> outLen != old(outLen)
//@   ensures [C06] isPB && local(analogOk) && !(d.lastAnalogValue[ie.Source.Name][ie.Event.Code] == lav0) && (local(value) < -0.5 || local(value) > 0.5) ==> outLen != old(outLen)
//@   ensures [C06] isCC && !canBeNegative && !a.Bidirectional && outLen != old(outLen) ==> (local(value) == 1.0 ==> out[old(outLen)].b2 == 127) && (local(value) == 0.0 ==> out[old(outLen)].b2 == 0)
//@   ensures [C06] isCC && canBeNegative && !a.Bidirectional && outLen != old(outLen) ==> (local(value) == 1.0 ==> out[old(outLen)].b2 == 127) && (local(value) == -1.0 ==> out[old(outLen)].b2 == 0) && (local(value) == 0.0 ==> out[old(outLen)].b2 == 63)
//@   ensures [C06] isCC && canBeNegative && a.Bidirectional && outLen != old(outLen) ==> (local(value) == 1.0 || local(value) == -1.0 ==> out[old(outLen)].b2 == 127) && (local(value) == 0.0 ==> out[old(outLen)].b2 == 0)
//@   ensures [C06] isCC && !canBeNegative && a.Bidirectional && outLen != old(outLen) ==> (local(value) == 1.0 || local(value) == 0.0 ==> out[old(outLen)].b2 == 127) && (local(value) == 0.5 ==> out[old(outLen)].b2 == 0)
//@   ensures [C06] isPB && canBeNegative && outLen != old(outLen) ==> (local(value) == 0.0 ==> out[old(outLen)].b1 == 0 && out[old(outLen)].b2 == 64) && (local(value) == 1.0 ==> out[old(outLen)].b1 == 127 && out[old(outLen)].b2 == 127) && (local(value) == -1.0 ==> out[old(outLen)].b1 == 0 && out[old(outLen)].b2 == 0)
//@   ensures [C06] isPB && !canBeNegative && outLen != old(outLen) ==> (local(value) == 0.5 ==> out[old(outLen)].b1 == 0 && out[old(outLen)].b2 == 64) && (local(value) == 1.0 ==> out[old(outLen)].b1 == 127 && out[old(outLen)].b2 == 127) && (local(value) == 0.0 ==> out[old(outLen)].b1 == 0 && out[old(outLen)].b2 == 0)
// end to end, unsigned unflipped controller axis: the physical maximum transmits exactly 127 and the physical minimum 0
//@   ensures [C06] isCC && !canBeNegative && !a.Bidirectional && !a.FlipAxis && !a.DeadzoneAtCenter && outLen != old(outLen) && deadzone >= 0.0 && deadzone < 1.0 ==> (ie.Event.Value == max ==> out[old(outLen)].b2 == 127) && (ie.Event.Value == 0 ==> out[old(outLen)].b2 == 0)
// ---- C08: key emulation. kv is the value the threshold switch sees; id / idn are the two tracker keys of this axis
// (assumed: the two identifier strings of an axis differ, i.e. Sprintf("%d") and Sprintf("%d_neg") never collide)
//@   let isKeyAx := has(d.config.KeyMappings[d.mapping].Analog[ie.Source.Name], ie.Event.Code) && a.MappingType == config.AnalogKeySim
//@   let sP := int64(a.Note) + 12 * int64(d.octave) + int64(d.semitone)
//@   let sN := int64(a.NoteNeg) + 12 * int64(d.octave) + int64(d.semitone)
// progress for a signed key axis (its position is not rescaled after the dedup, so the local at any return is the value the
// switch sees): an accepted position at or beyond +50 % with nothing tracked at all DOES send (the Note On); the clauses below
// are about the processed event and would be silent about a change that returns before the switch
//@   ensures [C08] isKeyAx && local(analogOk) && local(canBeNegative) && !(d.lastAnalogValue[ie.Source.Name][ie.Event.Code] == lav0) && !old(d.ccLearning) && local(value) >= 0.5 && old(empty(d.analogNoteTracker)) && sP >= 0 && sP <= 127 ==> outLen != old(outLen)
//@   ensures [C08] isKeyAx && identifier != identifierNeg && !(old(has(d.analogNoteTracker, identifier)) && old(has(d.analogNoteTracker, identifierNeg))) ==> !(has(d.analogNoteTracker, identifier) && has(d.analogNoteTracker, identifierNeg))
//@   ensures [C08] isKeyAx && identifier != identifierNeg && local(value) >= 0.5 && !old(has(d.analogNoteTracker, identifier)) && sP >= 0 && sP <= 127 ==> out[old(outLen)] == mkev(0x90 | chP, byte(sP), 64) && has(d.analogNoteTracker, identifier) && d.analogNoteTracker[identifier] == mkarr(byte(sP), chP)
//@   ensures [C08] isKeyAx && identifier != identifierNeg && local(value) >= 0.5 && old(has(d.analogNoteTracker, identifier)) ==> outLen == old(outLen) + (if old(has(d.analogNoteTracker, identifierNeg)) then 1 else 0) && d.analogNoteTracker[identifier] == old(d.analogNoteTracker[identifier])
//@   ensures [C08] isKeyAx && identifier != identifierNeg && local(value) >= 0.5 ==> !has(d.analogNoteTracker, identifierNeg)
//@   ensures [C08] isKeyAx && identifier != identifierNeg && local(value) > -0.49 && local(value) < 0.49 ==> !has(d.analogNoteTracker, identifier) && !has(d.analogNoteTracker, identifierNeg)
//@   ensures [C08] isKeyAx && !(local(value) <= -0.5) && !(local(value) > -0.49 && local(value) < 0.49) && !(local(value) >= 0.5) ==> outLen == old(outLen) && keys(d.analogNoteTracker) == old(keys(d.analogNoteTracker)) && vals(d.analogNoteTracker) == old(vals(d.analogNoteTracker))
//@   ensures [C08] isKeyAx && identifier != identifierNeg && local(value) <= -0.5 && a.Bidirectional && !old(has(d.analogNoteTracker, identifierNeg)) && sN >= 0 && sN <= 127 ==> out[old(outLen)] == mkev(0x90 | chN, byte(sN), 64) && has(d.analogNoteTracker, identifierNeg) && d.analogNoteTracker[identifierNeg] == mkarr(byte(sN), chN)
//@   ensures [C08] isKeyAx && identifier != identifierNeg && local(value) <= -0.5 ==> !has(d.analogNoteTracker, identifier)
//@   ensures [C08] isKeyAx && identifier != identifierNeg && local(value) <= -0.5 && !a.Bidirectional ==> (has(d.analogNoteTracker, identifierNeg) <==> old(has(d.analogNoteTracker, identifierNeg))) && outLen == old(outLen) + (if old(has(d.analogNoteTracker, identifier)) then 1 else 0)
//@   safety [C05]
//@   modifies d.keyTracker[_], d.actionTracker[_], d.analogNoteTracker[_], d.lastAnalogValue[_][_], d.ccZeroed[_], d.octave, d.semitone, d.channel, d.mapping, d.ccLearning, out, outLen, sounding, ccv, d.externalNoteTracker, locked

// which side of a bidirectional axis the (shaped, flipped) value is on: below 0 for a signed range, below the middle otherwise
//@ pred bidiSideNeg(signed bool, v float64) := (signed && v < 0.0) || (!signed && v < 0.5)

// ---- event loop

// what the kernel delivers: key events are press/release/repeat, and a press is of a key that is up (alternation)
//@ pred envEvent(d *Device, ie *input.InputEvent) :=
//@   ie != nil && (ie.Event.Type == evdev.EV_KEY ==> (ie.Event.Value == 0 || ie.Event.Value == 1 || ie.Event.Value == 2)
//@                  && (ie.Event.Value == 1 ==> !has(d.keyTracker, ie.Event.Code)))
//@   && (ie.Event.Type == evdev.EV_ABS ==> envAbs(d, ie))

//@ func (*Device).processEvent
//@   requires [C16] !locked[d.eventProcessMutex] && !locked[d.externalTrackerMutex]
//@   ensures [C16] locked == old(locked)
//@   requires wf(d) && tableOK(d) && event != nil
//@   requires event.Event.Type == evdev.EV_KEY ==> event.Event.Value == 0 || event.Event.Value == 1 || event.Event.Value == 2
//@   requires cfgRanges(d.config) && cfgDz(d.config) && lavOK(d.config, d.lastAnalogValue) && (event.Event.Type == evdev.EV_ABS ==> envAbs(d, event))
//@   ensures wf(d) && tableOK(d) && cfgRanges(d.config) && cfgDz(d.config) && lavOK(d.config, d.lastAnalogValue)
//@   ensures [C01!] old(Inv(d)) && old(envEvent(d, event)) ==> Inv(d)
//@   safety [C01]
//@   modifies d.keyTracker[_], d.actionTracker[_], d.noteTracker[_], d.activeNotesCounter[_][_], d.analogNoteTracker[_], d.lastAnalogValue[_][_], d.ccZeroed[_], d.octave, d.semitone, d.channel, d.mapping, d.ccLearning, d.multiNote, heap("[]int"), heap("*[1]int"), out, outLen, sounding, ccv, sigs, d.externalNoteTracker, locked

// C01, second sentence: when the event stream ends (at any moment: the loop invariant holds after every prefix),
// every note still tracked is released before processing ends, so nothing is left sounding at the receiver.
//@ func (*Device).ProcessEvents
// "ends promptly, leaves nothing behind" - the part that is a safety property of this thread: when it waits, every goroutine it
// started was told to stop (its context is cancelled) and is counted in the WaitGroup (obligations at wg.Wait, see extern.hvc)
//@   requires [C17] extOK(d)
//@   ghost entry spawnedCtx = emptyset("set[Ref]")
//@   ghost entry cancelled = emptyset("set[Ref]")
//@   ghost entry wgSpawned = 0
//@   ghost entry wgAdded = 0
//@   requires [C16] !locked[d.eventProcessMutex] && !locked[d.externalTrackerMutex]
//@   loop 1 invariant [C16] !locked[d.eventProcessMutex] && !locked[d.externalTrackerMutex]
//@   requires wf(d) && tableOK(d) && Inv(d) && cfgRanges(d.config) && cfgDz(d.config) && lavOK(d.config, d.lastAnalogValue)
//@   assume env envEvent(d, recv)
//@   ensures [C01] empty(d.noteTracker) && empty(d.analogNoteTracker)
//@   ensures [C01] forall ch byte, n byte :: !sounding[ch][n]
//@   loop 1 invariant [C01,C05] wf(d) && tableOK(d) && Inv(d) && cfgRanges(d.config) && cfgDz(d.config) && lavOK(d.config, d.lastAnalogValue)
//@   loop 2 invariant [C01] wf(d) && InvCore(d) && (forall k evdev.EvCode :: visited(k) ==> !has(d.noteTracker, k))
//@   loop 3 invariant [C01] wf(d) && InvCore(d) && empty(d.noteTracker) && (forall s string :: visited(s) ==> !has(d.analogNoteTracker, s))
//@   safety [C01]

// ---- property lemmas (consequences of the invariants alone)

// C01, first sentence: whenever no key and no key-emulating axis is held, nothing started by the device is sounding
//@ lemma C01_quiescence [C01]: forall d *Device :: Inv(d) && empty(d.keyTracker) && empty(d.analogNoteTracker) ==> (forall ch byte, n byte :: !sounding[ch][n])

// C03: under the counting invariant the counter is the number of holders: zero iff nobody holds the pitch,
// and at a release it is one iff the released key is the only holder
//@ lemma C03_first_holder [C03]: forall d *Device, ch byte, n byte :: counted(d) && ch < 16 && n < 128 ==> (d.activeNotesCounter[ch][n] == 0 <==> !(exists k evdev.EvCode :: has(d.noteTracker, k) && d.noteTracker[k] == mkarr(n, ch)))
//@ lemma C03_last_holder [C03]: forall d *Device, k evdev.EvCode, k2 evdev.EvCode :: wf(d) && counted(d) && has(d.noteTracker, k) && has(d.noteTracker, k2) && k != k2 && d.noteTracker[k] == d.noteTracker[k2] ==> d.activeNotesCounter[d.noteTracker[k][1]][d.noteTracker[k][0]] >= 2

// vacuity guards for the counting axioms and the invariants: these must NOT be provable
//@ canary inv_not_contradictory [C01,C03]: forall d *Device :: !(Inv(d) && tableOK(d) && has(d.noteTracker, 30) && has(d.noteTracker, 31) && d.noteTracker[30] == d.noteTracker[31] && sounding[0][60])
//@ canary counting_not_trivial [C01,C03]: forall d *Device :: counted(d) ==> d.activeNotesCounter[0][0] == 0

// ---- construction: the configured defaults are the initial state (C04); wf, the dispatch tables and Inv are established

// what an accepted configuration guarantees (ParseData's postcondition, C10) as far as the device needs it
//@ pred cfgOK(c config.Config) :=
//@   len(c.KeyMappings) >= 1 && c.Defaults.Mapping >= 0 && c.Defaults.Mapping < len(c.KeyMappings)
//@   && c.Defaults.Channel >= 1 && c.Defaults.Channel <= 16 && c.Defaults.Velocity >= 1 && c.Defaults.Velocity <= 127
//@   && modeOK(c.CollisionMode)

// devices share no mutable state (C16, "what one device does never changes another device's output"): every mutable
// container of a new device - including the per-channel inner maps - is allocated by this very call
//@ pred devFresh(d *Device) := fresh(d.noteTracker) && fresh(d.analogNoteTracker) && fresh(d.keyTracker) && fresh(d.actionTracker) && fresh(d.ccZeroed)
//@   && fresh(d.activeNotesCounter) && (forall c byte :: c < 16 ==> fresh(d.activeNotesCounter[c]))
//@   && fresh(d.externalNoteTracker) && (forall c byte :: c < 16 ==> fresh(d.externalNoteTracker[c]))
//@   && fresh(d.lastAnalogValue) && fresh(d.eventProcessMutex) && fresh(d.externalTrackerMutex)
//@ func NewDevice
//@   ensures [C16] forall p *Device :: p != nil && pointsTo(p, result) ==> devFresh(p)
//@   requires cfgOK(cfg.Config) && cfgRanges(cfg.Config) && cfgDz(cfg.Config)
//@   requires forall ch byte, n byte :: !sounding[ch][n]
//@   ensures [C04] result.octave == int8(cfg.Config.Defaults.Octave) && result.semitone == int8(cfg.Config.Defaults.Semitone)
//@   ensures [C04] int(result.channel) + 1 == cfg.Config.Defaults.Channel && result.mapping == cfg.Config.Defaults.Mapping && int(result.velocity) == cfg.Config.Defaults.Velocity
//@   ensures [C01,C04,C05] forall p *Device :: p != nil && pointsTo(p, result) ==> wf(p) && tableOK(p) && Inv(p)
//@   ensures [C01] empty(result.keyTracker) && empty(result.noteTracker) && empty(result.analogNoteTracker)
//@   ensures [C05] cfgRanges(result.config) && cfgDz(result.config) && lavOK(result.config, result.lastAnalogValue)
//@   loop 4 invariant [C05] subhandlers != nil && (forall m int, sub string :: 0 <= m && m < idx() && has(cfg.Config.KeyMappings[m].Analog, sub) ==> has(subhandlers, sub))
//@   loop 5 invariant [C05] subhandlers != nil && (forall m int, sub string :: 0 <= m && m < idx(4) - 1 && has(cfg.Config.KeyMappings[m].Analog, sub) ==> has(subhandlers, sub))
//@   loop 5 invariant [C05] idx(4) >= 1 && idx(4) <= len(cfg.Config.KeyMappings) && mapping.Analog == cfg.Config.KeyMappings[idx(4) - 1].Analog && (forall sub string :: visited(sub) ==> has(subhandlers, sub))
//@   loop 6 invariant [C05] lastAnalogValue != nil && (forall sub string :: visited(sub) ==> has(lastAnalogValue, sub) && vals(lastAnalogValue)[sub] != nil)
//@   ensures [C17] forall p *Device :: p != nil && pointsTo(p, result) ==> extOK(p)
//@   loop 3 invariant [C17] inmap != nil && i <= 16 && (forall c byte :: c < i ==> has(inmap, c) && inmap[c] != nil)
//@   loop 3 invariant [C16] fresh(inmap) && (forall c byte :: c < i ==> fresh(inmap[c]))
//@   loop 1 invariant [C16] fresh(activeNoteCounter) && (forall c byte :: c < ch ==> fresh(activeNoteCounter[c]))
//@   loop 2 invariant [C16] fresh(activeNoteCounter) && fresh(t) && (forall c byte :: c < ch ==> fresh(activeNoteCounter[c]))
//@   loop 1 invariant ch <= 16 && activeNoteCounter != nil
//@   loop 1 invariant forall c byte :: c < ch ==> has(activeNoteCounter, c) && activeNoteCounter[c] != nil && allocated(activeNoteCounter[c])
//@   loop 1 invariant forall c1 byte, c2 byte :: c1 < ch && c2 < ch && c1 != c2 ==> activeNoteCounter[c1] != activeNoteCounter[c2]
//@   loop 1 invariant forall c byte, n byte :: c < ch ==> activeNoteCounter[c][n] == 0
//@   loop 2 invariant ch < 16 && note <= 128 && activeNoteCounter != nil && t != nil && allocated(t)
//@   loop 2 invariant forall c byte :: c < ch ==> has(activeNoteCounter, c) && activeNoteCounter[c] != nil && allocated(activeNoteCounter[c]) && activeNoteCounter[c] != t
//@   loop 2 invariant forall c1 byte, c2 byte :: c1 < ch && c2 < ch && c1 != c2 ==> activeNoteCounter[c1] != activeNoteCounter[c2]
//@   loop 2 invariant forall c byte, n byte :: c < ch ==> activeNoteCounter[c][n] == 0
//@   loop 2 invariant forall n byte :: t[n] == 0
//@   safety [C04]

// ---- C17 (partial): MIDI-input tracking and panic clearing. The LED colour computation is not under contract.
// the external tracker always has its 16 per-channel maps (re-established by Panic, which replaces it under the same mutex)
//@ pred extOK(d *Device) := d.externalNoteTracker != nil && (forall ch byte :: ch < 16 ==> has(d.externalNoteTracker, ch) && d.externalNoteTracker[ch] != nil)

//@ func (*Device).handleInputEvents
// every return path reports to the WaitGroup exactly once
//@   ghost entry wgDone = 0
//@   ensures [C16] wgDone == 1
//@   requires [C16] !locked[d.externalTrackerMutex]
//@   loop 1 invariant [C16] !locked[d.externalTrackerMutex]
//@   requires d != nil && extOK(d) && ctx != nil && wg != nil
//@   assume env len(recv) == 0 || len(recv) >= 3
//@   siteassert mapupdate(map[byte]bool) [C17] len(ev) >= 3 && ev[0] & 0xF0 == 0x90 && ev[2] > 0 && k == ev[1] && m == d.externalNoteTracker[ev[0] & 0x0F]
//@   siteassert mapdelete(map[byte]bool) [C17] len(ev) >= 3 && (ev[0] & 0xF0 == 0x80 || (ev[0] & 0xF0 == 0x90 && ev[2] == 0)) && k == ev[1] && m == d.externalNoteTracker[ev[0] & 0x0F]
//@   loop 1 invariant [C17] d != nil && extOK(d)
//@   safety [C17]
// reader side: the tracker (the field and the per-channel maps held in it) is only read under its mutex - Panic replaces it
//@   guardedreads [C16]
//@   ghost entry concurrent = true

// ---- the LED loop (C16 reader side, C17). It is the only other user of eventProcessMutex and only READS what that mutex
// guards (proved: `guardedreads` makes every read an obligation, a declared reader's writes are obligations that fail), so
// the writer thread keeps its knowledge across Lock; the LED loop itself knows, after Lock, only the monitor invariant.
// C17 frame content: the LED of the j-th key that plays (untransposed) pitch m in mapping mp shows colour c1 or c2, when that key has
// an LED. raw(map, key) is the stored value without the "absent => zero" case split (used under has(): the LED loop itself only
// ranges over the slice of a present pitch; an absent pitch gives an empty range)
//@ pred ledAt(leds []openrgb.Color, mkm []map[byte][]evdev.EvCode, im map[evdev.EvCode]int, mp int, m byte, j int, c1 openrgb.Color, c2 openrgb.Color) :=
//@   has(mkm[mp], m) && 0 <= j && j < len(raw(mkm[mp], m)) && has(im, raw(mkm[mp], m)[j]) ==> (leds[raw(im, raw(mkm[mp], m)[j])] == c1 || leds[raw(im, raw(mkm[mp], m)[j])] == c2)
//@ ghost var ledFrames int
//@ ghost var ledLastRed bool
//@ lockreaders Device.eventProcessMutex: (*Device).handleOpenrgb
//@ lockinv Device.eventProcessMutex [C16,C17] self: self.mapping >= 0 && self.mapping < len(self.config.KeyMappings) && self.channel < 16

//@ pred ledLk0(d *Device, l0 set[Ref]) := !locked[d.eventProcessMutex] && !locked[d.externalTrackerMutex] && concurrent && locked == l0 && wgDone == 0
//@ pred ledLk1(d *Device, l0 set[Ref]) := locked[d.eventProcessMutex] && !locked[d.externalTrackerMutex] && concurrent && locked == upd(l0, d.eventProcessMutex, true) && wgDone == 0
//@ pred ledLk2(d *Device, l0 set[Ref]) := locked[d.eventProcessMutex] && locked[d.externalTrackerMutex] && concurrent && locked == upd(upd(l0, d.eventProcessMutex, true), d.externalTrackerMutex, true) && wgDone == 0
//@ func (*Device).handleOpenrgb
//@   requires d != nil && ctx != nil && wg != nil
//@   requires d.eventProcessMutex != nil && d.externalTrackerMutex != nil && d.eventProcessMutex != d.externalTrackerMutex
//@   requires [C16] !locked[d.eventProcessMutex] && !locked[d.externalTrackerMutex]
//@   ghost entry wgDone = 0
//@   ghost entry concurrent = true
//@   ensures [C16] wgDone == 1
//@   ensures [C16] locked == old(locked)
//@   guardedreads [C16]
// C17 "on disconnect all LEDs turn red": if any frame was ever sent, the last one sent before the goroutine ends is all red
//@   ghost entry ledFrames = 0
//@   ensures [C17] ledFrames > 0 ==> ledLastRed
// C17 frame content, layer "external, current channel": in every frame sent from inside the loop a key whose pitch sounds on MIDI
// input on the current channel shows the external colour, unless it shows the active colour (the layer painted last, on top).
// The quantified pitch m is the untransposed one (m + offset sounds), so that no arithmetic on a bound variable occurs in a pattern.
//@   let cA := d.config.OpenRGB.Colors.Active
//@   let cE := d.config.OpenRGB.Colors.ActiveExternal
//@   loop 19 invariant [C17] forall m byte, j int :: visited(m + byte(offset)) ==> ledAt(ledArray, MidiKeyMappings, indexMap, d.mapping, m, j, cE, cE)
//@   loop 20 invariant [C17] forall m byte, j int :: visitedIn(19, m + byte(offset)) && m != local(note, here) ==> ledAt(ledArray, MidiKeyMappings, indexMap, d.mapping, m, j, cE, cE)
// (the range is written as "j < last || j == last" so that the step's case split has an equality literal: the solvers do not
//  derive j == last from two bit-vector comparisons fast enough)
//@   loop 20 invariant [C17] forallp j int :: (j < idx() - 1 || j == idx() - 1) ==> ledAt(ledArray, MidiKeyMappings, indexMap, d.mapping, local(note, here), j, cE, cE)
//@   loop 21 invariant [C17] forall m byte, j int :: has(d.externalNoteTracker[d.channel], m + byte(offset)) ==> ledAt(ledArray, MidiKeyMappings, indexMap, d.mapping, m, j, cE, cA)
//@   loop 22 invariant [C17] forall m byte, j int :: has(d.externalNoteTracker[d.channel], m + byte(offset)) ==> ledAt(ledArray, MidiKeyMappings, indexMap, d.mapping, m, j, cE, cA)
//@   callassert (*openrgb-go.Client).UpdateLEDs [C17] locked[d.eventProcessMutex] ==> (forall m byte, j int :: has(d.externalNoteTracker[d.channel], m + byte(offset)) ==> ledAt(colors, MidiKeyMappings, indexMap, d.mapping, m, j, d.config.OpenRGB.Colors.ActiveExternal, d.config.OpenRGB.Colors.Active))
//@   loop 23 invariant [C17] forallp j int :: 0 <= j && j < idx() ==> ledArray[j].Red == 255 && ledArray[j].Green == 0 && ledArray[j].Blue == 0
//@   loop 1 invariant [C16] ledLk0(d, old(locked))
//@   loop 2 invariant [C16] ledLk0(d, old(locked))
//@   loop 3 invariant [C16] ledLk0(d, old(locked))
//@   loop 4 invariant [C16] ledLk0(d, old(locked))
//@   loop 5 invariant [C16] ledLk0(d, old(locked))
//@   loop 6 invariant [C16] ledLk0(d, old(locked))
//@   loop 7 invariant [C16] ledLk0(d, old(locked))
//@   loop 8 invariant [C16] ledLk0(d, old(locked))
//@   loop 9 invariant [C16] ledLk0(d, old(locked))
//@   loop 10 invariant [C16] ledLk0(d, old(locked))
//@   loop 11 invariant [C16] ledLk0(d, old(locked))
//@   loop 12 invariant [C16] ledLk0(d, old(locked))
//@   loop 13 invariant [C16] ledLk1(d, old(locked))
//@   loop 14 invariant [C16] ledLk1(d, old(locked))
//@   loop 15 invariant [C16] ledLk1(d, old(locked))
//@   loop 16 invariant [C16] ledLk2(d, old(locked))
//@   loop 17 invariant [C16] ledLk2(d, old(locked))
//@   loop 18 invariant [C16] ledLk2(d, old(locked))
//@   loop 19 invariant [C16] ledLk2(d, old(locked))
//@   loop 20 invariant [C16] ledLk2(d, old(locked))
//@   loop 21 invariant [C16] ledLk1(d, old(locked))
//@   loop 22 invariant [C16] ledLk1(d, old(locked))
//@   loop 23 invariant [C16] ledLk0(d, old(locked))
