//go:build verif

// Contracts for package device, read by the hv verifier (/verif). Comment-only file: compiles to nothing.
package device

// ---- ghost receiver state, updated at every send on Device.outputEvents
//@ ghost var out fun[int]Ev
//@ ghost var outLen int
//@ ghost var sounding fun[byte]set[byte]
//@ ghost var sigs int

//@ on send Device.outputEvents(e) { out = upd(out, outLen, evOf(e)); outLen = outLen + 1; sounding = rx(sounding, evOf(e)) }
//@ on send Device.sigs(s) { sigs = sigs + 1 }

//@ spec fn rx(s fun[byte]set[byte], e Ev) fun[byte]set[byte] :=
//@   let st := e.b0 & 0xF0 in let ch := e.b0 & 0x0F in
//@   if st == 0x90 && e.b2 > 0 then upd(s, ch, upd(s[ch], e.b1, true))
//@   else if st == 0x80 || st == 0x90 then upd(s, ch, upd(s[ch], e.b1, false))
//@   else if st == 0xB0 && e.b1 == 123 then upd(s, ch, emptyset("set[byte]"))
//@   else s

//@ pred modeOK(m config.CollisionMode) :=
//@   m == config.CollisionOff || m == config.CollisionNoRepeat || m == config.CollisionInterrupt || m == config.CollisionRetrigger

//@ pred wf(d *Device) :=
//@   d != nil && d.channel < 16 && d.velocity >= 1 && d.velocity <= 127
//@   && d.mapping >= 0 && d.mapping < len(d.config.KeyMappings)
//@   && d.activeNotesCounter != nil && d.noteTracker != nil && d.analogNoteTracker != nil && d.keyTracker != nil
//@   && d.actionTracker != nil && d.ccZeroed != nil
//@   && (forall ch byte :: ch < 16 ==> has(d.activeNotesCounter, ch) && d.activeNotesCounter[ch] != nil)
//@   && (forall c1 byte, c2 byte :: c1 < 16 && c2 < 16 && c1 != c2 ==> d.activeNotesCounter[c1] != d.activeNotesCounter[c2])
//@   && (forall k evdev.EvCode :: has(d.noteTracker, k) ==> d.noteTracker[k][0] <= 127 && d.noteTracker[k][1] < 16)
//@   && modeOK(d.config.CollisionMode)

//@ func (*Device).NoteOff
//@   requires wf(d) && ev != nil
//@   let code := ev.Event.Code
//@   let tracked := has(d.noteTracker, code)
//@   let note := d.noteTracker[code][0]
//@   let ch := d.noteTracker[code][1]
//@   let c := d.activeNotesCounter[ch][note]
//@   let managed := d.config.CollisionMode != config.CollisionOff
//@   ensures [C02] !tracked ==> outLen == old(outLen) && out == old(out)
//@   ensures [C02,C03] tracked && (!managed || c == 1) ==> outLen == old(outLen) + 1 && out == upd(old(out), old(outLen), mkev(0x80 | ch, note, 0))
//@   ensures [C03] tracked && managed && c != 1 ==> outLen == old(outLen) && out == old(out)
//@   ensures [C01,C02] !has(d.noteTracker, code)
//@   ensures [C03] tracked ==> d.activeNotesCounter[ch][note] == c - 1
//@   ensures wf(d)
//@   safety [C01]
//@   modifies d.noteTracker[_], d.activeNotesCounter[_][_], out, outLen, sounding
