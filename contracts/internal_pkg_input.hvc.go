//go:build verif

// Contracts for package input, read by the hv verifier (/verif). Comment-only file: compiles to nothing.
package input

// ---- C20: classification of a group of handlers depends only on the SET of handler types present.
// HandlerType is kept abstract (a function of the DeviceInfo value): the statement is parametric in what
// "joystick-like" and "standard keyboard" mean.

//@ spec fn ht(di DeviceInfo) HandlerType := ext("(*input.DeviceInfo).HandlerType", di, "HandlerType")
//@ pred hasType(in []DeviceInfo, t HandlerType) := exists i int :: 0 <= i && i < len(in) && ht(in[i]) == t

//@ func contains
//@   ensures [C20] result <==> (forall j int :: 0 <= j && j < len(handlerTypes) ==> hasType(in, handlerTypes[j]))
//@   loop 1 invariant [C20] forall j int :: 0 <= j && j < idx() ==> hasType(in, handlerTypes[j])
//@   loop 2 invariant [C20] forall j int :: 0 <= j && j < idx(1) - 1 ==> hasType(in, handlerTypes[j])
//@   loop 2 invariant [C20] idx(1) >= 1 && idx(1) <= len(handlerTypes) && ht == handlerTypes[idx(1) - 1]
//@   loop 2 invariant [C20] forall i int :: 0 <= i && i < idx() ==> ht(in[i]) != ht
//@   safety [C20]
//@   modifies nothing

//@ func containsOnly
//@   ensures [C20] result <==> (len(in) == len(handlerTypes) && (forall j int :: 0 <= j && j < len(handlerTypes) ==> hasType(in, handlerTypes[j])))
//@   loop 1 invariant [C20] len(in) == len(handlerTypes) && (forall j int :: 0 <= j && j < idx() ==> hasType(in, handlerTypes[j]))
//@   loop 2 invariant [C20] len(in) == len(handlerTypes) && (forall j int :: 0 <= j && j < idx(1) - 1 ==> hasType(in, handlerTypes[j]))
//@   loop 2 invariant [C20] idx(1) >= 1 && idx(1) <= len(handlerTypes) && ht == handlerTypes[idx(1) - 1]
//@   loop 2 invariant [C20] forall i int :: 0 <= i && i < idx() ==> ht(in[i]) != ht
//@   safety [C20]
//@   modifies nothing

// joystick if any handler is joystick-like, otherwise keyboard if any handler is a standard keyboard,
// otherwise mouse iff it is a single mouse handler, otherwise unknown: a function of the set of handler types
//@ func DetermineDeviceType
//@   let joy := hasType(handlers, DI_TYPE_JOYSTICK)
//@   let kbd := hasType(handlers, DI_TYPE_STD_KBD)
//@   let mouse := len(handlers) == 1 && hasType(handlers, DI_TYPE_MOUSE)
//@   ensures [C20] result == (if joy then JoystickDevice else if kbd then KeyboardDevice else if mouse then MouseDevice else UnknownDevice)
//@   safety [C20]
//@   modifies nothing

// ---- Normalize: grouping by physical location

//@ spec fn phys(di DeviceInfo) PhysicalID := ext("(*input.DeviceInfo).PhysicalUUID", di, "PhysicalID")

// every group is non-empty and holds only handlers of its own location
//@ pred groupsOK(c map[PhysicalID][]DeviceInfo) :=
//@   (forall p PhysicalID :: has(c, p) ==> len(c[p]) >= 1 && allocated(c[p]))
//@   && (forall p PhysicalID, h int :: has(c, p) && 0 <= h && h < len(c[p]) ==> phys(c[p][h]) == p)
// the first n inputs are all in the group of their location. The position inside the group is recorded in the ghost map
// `slot` when the handler is appended (siteghost below), so the statement needs no existential quantifier.
//@ ghost var slot fun[int]int
//@ pred placed(in []DeviceInfo, n int, c map[PhysicalID][]DeviceInfo) :=
//@   forall i int :: 0 <= i && i < n ==> has(c, phys(in[i])) && 0 <= slot[i] && slot[i] < len(c[phys(in[i])]) && c[phys(in[i])][slot[i]] == in[i]

// a device holds at least one handler and only handlers of its own location
//@ pred devOK(dv Device) := len(dv.Handlers) >= 1 && allocated(dv.Handlers) && (forall h int :: 0 <= h && h < len(dv.Handlers) ==> phys(dv.Handlers[h].DeviceInfo) == dv.Phys)
//@ pred hasTypeH(hs []Handler, t HandlerType) := exists h int :: 0 <= h && h < len(hs) && ht(hs[h].DeviceInfo) == t
// joystick if any handler is joystick-like, otherwise keyboard if any is a standard keyboard, otherwise not a playable device
//@ spec fn typeOfH(hs []Handler) DeviceType :=
//@   if hasTypeH(hs, DI_TYPE_JOYSTICK) then JoystickDevice else if hasTypeH(hs, DI_TYPE_STD_KBD) then KeyboardDevice
//@   else if len(hs) == 1 && hasTypeH(hs, DI_TYPE_MOUSE) then MouseDevice else UnknownDevice
// the devices built so far: well-formed, pairwise different locations, typed by their handler set
//@ pred devsOK(ds []Device) :=
//@   (len(ds) == 0 || allocated(ds))
//@   && (forall d int :: 0 <= d && d < len(ds) ==> devOK(ds[d]) && ds[d].DeviceType == typeOfH(ds[d].Handlers))
//@   && (forall d1 int, d2 int :: 0 <= d1 && d1 < len(ds) && 0 <= d2 && d2 < len(ds) && d1 != d2 ==> ds[d1].Phys != ds[d2].Phys)
// device d is the group of location p, handler by handler
//@ pred isGroup(dv Device, g []DeviceInfo) := len(dv.Handlers) == len(g) && (forall h int :: 0 <= h && h < len(g) ==> dv.Handlers[h].DeviceInfo == g[h])

// Proved here: the grouping phase (loop 1) puts every input handler into the group of its own location and every group
// holds only handlers of that location; the groups stay intact while the devices are built (so dis[0] is always defined).
// The device-construction phase (one device per group, handlers copied one to one, type of the group) is covered by the
// bounded stand-in c20_normalize (see props.json / DESIGN.md): its quantified invariants over a map of slices of structs
// sent all three solvers into matching loops.
//@ func Normalize
//@   siteghost mapupdate(map[PhysicalID][]DeviceInfo) slot = upd(slot, idx(1) - 1, len(v) - 1)
//@   loop 1 invariant [C20] collection != nil && groupsOK(collection) && placed(deviceInfos, idx(), collection)
//@   loop 2 invariant [C20] collection != nil && groupsOK(collection)
//@   loop 5 invariant [C20] collection != nil && groupsOK(collection)
//@   safety [C20]
