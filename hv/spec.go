package main

// Evaluation of spec expressions to SMT terms under a symbolic state.

import (
	"os"
	"fmt"
	"go/constant"
	"go/token"
	"go/types"
	"math"
	"math/big"
	"strconv"
	"sort"
	"strings"

	"golang.org/x/tools/go/ssa"
)

type SType struct {
	Go   types.Type
	Kind string // "go", "fun", "set", "ev"
	K, V *SType
}

func goT(t types.Type) *SType { return &SType{Go: t, Kind: "go"} }

var (
	stBool = goT(types.Typ[types.Bool])
	stInt  = goT(types.Typ[types.Int])
	stEv   = &SType{Kind: "ev"}
)

func (t *SType) String() string {
	switch t.Kind {
	case "go":
		return typeShort(t.Go)
	case "fun":
		return "fun[" + t.K.String() + "]" + t.V.String()
	case "set":
		return "set[" + t.K.String() + "]"
	}
	return t.Kind
}

func (w *World) sortOfS(t *SType) Sort {
	switch t.Kind {
	case "go":
		return w.sortOf(t.Go)
	case "fun":
		return arraySort(w.sortOfS(t.K), w.sortOfS(t.V))
	case "set":
		return arraySort(w.sortOfS(t.K), SBool)
	case "ev":
		return SEv
	}
	panic("bad stype")
}

type SVal struct {
	T    Term
	Ty   *SType
	Lit  *big.Int
	FLit *float64
	Any  bool
}

type specError struct{ msg string }

func sfail(format string, a ...interface{}) { panic(specError{fmt.Sprintf(format, a...)}) }

type Env struct {
	x     *Exec
	cur   *State
	loc   *State // state used for local variables, range indexes and iterators: old(e) does not rewind these
	old   *State
	vars  map[string]SVal
	pkg   *types.Package
	fn    *ssa.Function // for locals by name (may be nil)
	loop  *loopInfo     // for visited()
	at    token.Pos     // program point (scoping of local names)
	depth int
}

func (e *Env) locState(ad Addr) *State {
	if ad.Kind == aLocal && e.loc != nil {
		return e.loc
	}
	return e.cur
}

func (e *Env) locs() *State {
	if e.loc != nil {
		return e.loc
	}
	return e.cur
}

func (e *Env) child() *Env {
	n := *e
	n.vars = map[string]SVal{}
	for k, v := range e.vars {
		n.vars[k] = v
	}
	return &n
}

func (e *Env) evalBool(ex Expr) Term {
	v := e.eval(ex)
	if v.Ty == nil || v.T.Sort != SBool {
		sfail("expected bool in %s", ex)
	}
	return v.T
}

func boolV(t Term) SVal { return SVal{T: t, Ty: stBool} }

// ---- type names

func (x *Exec) resolveType(name string, pkg *types.Package) *SType {
	name = strings.TrimSpace(name)
	switch {
	case strings.HasPrefix(name, "fun["):
		k, rest := splitBracket(name[3:])
		return &SType{Kind: "fun", K: x.resolveType(k, pkg), V: x.resolveType(rest, pkg)}
	case strings.HasPrefix(name, "set["):
		k, _ := splitBracket(name[3:])
		return &SType{Kind: "set", K: x.resolveType(k, pkg)}
	case strings.HasPrefix(name, "map["):
		k, rest := splitBracket(name[3:])
		return goT(types.NewMap(x.resolveType(k, pkg).Go, x.resolveType(rest, pkg).Go))
	case strings.HasPrefix(name, "[]"):
		return goT(types.NewSlice(x.resolveType(name[2:], pkg).Go))
	case strings.HasPrefix(name, "["):
		n, rest := splitBracket(name)
		ln, _ := strconv.Atoi(n)
		return goT(types.NewArray(x.resolveType(rest, pkg).Go, int64(ln)))
	case strings.HasPrefix(name, "*"):
		return goT(types.NewPointer(x.resolveType(name[1:], pkg).Go))
	}
	switch name {
	case "Ev":
		return stEv
	case "Ref":
		return goT(types.Typ[types.UnsafePointer])
	}
	if o := types.Universe.Lookup(name); o != nil {
		if tn, ok := o.(*types.TypeName); ok {
			return goT(tn.Type())
		}
	}
	if i := strings.Index(name, "."); i >= 0 {
		p := x.eng.pkgByName(name[:i], pkg)
		if p == nil {
			sfail("unknown package %q in type %q", name[:i], name)
		}
		o := p.Scope().Lookup(name[i+1:])
		if tn, ok := o.(*types.TypeName); ok {
			return goT(tn.Type())
		}
		sfail("unknown type %q", name)
	}
	if pkg != nil {
		if o := pkg.Scope().Lookup(name); o != nil {
			if tn, ok := o.(*types.TypeName); ok {
				return goT(tn.Type())
			}
		}
	}
	sfail("unknown type %q", name)
	return nil
}

// splitBracket("[K]rest") -> K, rest
func splitBracket(s string) (string, string) {
	depth := 0
	for i := 0; i < len(s); i++ {
		switch s[i] {
		case '[':
			depth++
		case ']':
			depth--
			if depth == 0 {
				return s[1:i], s[i+1:]
			}
		}
	}
	sfail("bad type syntax %q", s)
	return "", ""
}

// ---- literals and coercion

func f64Term(f float64) Term {
	b := math.Float64bits(f)
	sign := b >> 63
	exp := (b >> 52) & 0x7ff
	man := b & ((1 << 52) - 1)
	return Term{fmt.Sprintf("(fp #b%b #b%011b #b%052b)", sign, exp, man), SF64}
}

func (e *Env) coerce(v SVal, to *SType) SVal {
	if v.Lit == nil && v.FLit == nil {
		return v
	}
	s := e.x.w.sortOfS(to)
	switch {
	case s.isBV():
		if v.Lit == nil {
			sfail("float literal used as integer")
		}
		return SVal{T: bvLit(s.bvWidth(), v.Lit), Ty: to}
	case s == SF64:
		var f float64
		if v.FLit != nil {
			f = *v.FLit
		} else {
			bf := new(big.Float).SetInt(v.Lit)
			f, _ = bf.Float64()
		}
		return SVal{T: f64Term(f), Ty: to}
	}
	sfail("cannot coerce literal to %s", to)
	return v
}

func (e *Env) concrete(v SVal) SVal {
	if v.Lit != nil {
		return e.coerce(v, stInt)
	}
	if v.FLit != nil {
		return e.coerce(v, goT(types.Typ[types.Float64]))
	}
	return v
}

func (e *Env) unify(a, b SVal) (SVal, SVal) {
	al := a.Lit != nil || a.FLit != nil
	bl := b.Lit != nil || b.FLit != nil
	switch {
	case al && bl:
		if a.FLit != nil || b.FLit != nil {
			f := goT(types.Typ[types.Float64])
			return e.coerce(a, f), e.coerce(b, f)
		}
		return e.coerce(a, stInt), e.coerce(b, stInt)
	case al:
		return e.coerce(a, b.Ty), b
	case bl:
		return a, e.coerce(b, a.Ty)
	}
	return a, b
}

func stSigned(t *SType) bool {
	if t.Kind != "go" {
		return true
	}
	return isSigned(t.Go)
}

// ---- evaluation

func (e *Env) eval(ex Expr) SVal {
	switch n := ex.(type) {
	case *EInt:
		v, ok := new(big.Int).SetString(n.V, 0)
		if !ok {
			sfail("bad int %s", n.V)
		}
		return SVal{Lit: v}
	case *EFloat:
		f, err := strconv.ParseFloat(n.V, 64)
		if err != nil {
			sfail("bad float %s", n.V)
		}
		return SVal{FLit: &f}
	case *EStr:
		return SVal{T: e.x.w.strLit(n.V), Ty: goT(types.Typ[types.String])}
	case *EIdent:
		return e.evalIdent(n.Name)
	case *EUnary:
		v := e.eval(n.X)
		switch n.Op {
		case "!":
			return boolV(not(v.T))
		case "-":
			if v.Lit != nil {
				return SVal{Lit: new(big.Int).Neg(v.Lit)}
			}
			if v.FLit != nil {
				f := -*v.FLit
				return SVal{FLit: &f}
			}
			if v.T.Sort == SF64 {
				return SVal{T: T(SF64, "(fp.neg %s)", v.T.S), Ty: v.Ty}
			}
			return SVal{T: T(v.T.Sort, "(bvneg %s)", v.T.S), Ty: v.Ty}
		case "^":
			v = e.concrete(v)
			return SVal{T: T(v.T.Sort, "(bvnot %s)", v.T.S), Ty: v.Ty}
		}
	case *EBinary:
		return e.evalBinary(n)
	case *EIte:
		c := e.evalBool(n.C)
		a, b := e.unify(e.eval(n.T), e.eval(n.E))
		a, b = e.concrete(a), e.concrete(b)
		if a.T.Sort != b.T.Sort {
			sfail("if-then-else branch sorts differ in %s", ex)
		}
		return SVal{T: ite(c, a.T, b.T), Ty: a.Ty}
	case *ELet:
		c := e.child()
		c.vars[n.Name] = e.concrete(e.eval(n.V))
		return c.eval(n.Body)
	case *EQuant:
		c := e.child()
		var binders []string
		for _, qv := range n.Vars {
			ty := e.x.resolveType(qv.Type, e.pkg)
			e.x.qn++
			name := fmt.Sprintf("%s!q%d", qv.Name, e.x.qn)
			s := e.x.w.sortOfS(ty)
			c.vars[qv.Name] = SVal{T: Term{name, s}, Ty: ty}
			binders = append(binders, fmt.Sprintf("(%s %s)", name, s))
		}
		body := c.evalBool(n.Body)
		q := "exists"
		if n.Forall {
			q = "forall"
		}
		var bnames []string
		for _, qv := range n.Vars {
			bnames = append(bnames, c.vars[qv.Name].T.S)
		}
		if pat := explicitPattern(body.S, bnames, n.Pat1); pat != "" {
			return boolV(T(SBool, "(%s (%s) (! %s :pattern (%s)))", q, strings.Join(binders, " "), body.S, pat))
		}
		return boolV(T(SBool, "(%s (%s) %s)", q, strings.Join(binders, " "), body.S))
	case *ESelect:
		return e.evalSelect(n)
	case *EIndex:
		return e.evalIndex(n)
	case *ECall:
		return e.evalCall(n)
	}
	sfail("cannot evaluate %s", ex)
	return SVal{}
}

func (e *Env) evalIdent(name string) SVal {
	if v, ok := e.vars[name]; ok {
		return v
	}
	switch name {
	case "true":
		return boolV(tTrue)
	case "false":
		return boolV(tFalse)
	case "nil":
		return SVal{T: tNil, Ty: goT(types.Typ[types.UntypedNil])}
	case "$any":
		return SVal{Any: true}
	}
	if gd := e.x.eng.ghostDecl(name); gd != nil {
		return SVal{T: e.x.ghostGet(e.cur, name), Ty: e.x.resolveType(gd.Type, e.pkg)}
	}
	if e.fn != nil {
		if a := e.x.localByNameAt(e.fn, name, e.at); a != nil {
			if os.Getenv("HV_LIST_LOCALS") != "" {
				fmt.Fprintf(os.Stderr, "LOCALREF %s %s\n", e.fn.Name(), name)
			}
			ad := e.x.resolveAddr(a)
			return SVal{T: e.x.loadAddr(e.locState(ad), ad), Ty: goT(ad.Typ)}
		}
	}
	if e.pkg != nil {
		if o := e.pkg.Scope().Lookup(name); o != nil {
			return e.objVal(o)
		}
	}
	sfail("unknown identifier %q", name)
	return SVal{}
}

func (e *Env) objVal(o types.Object) SVal {
	switch c := o.(type) {
	case *types.Const:
		return e.constVal(c.Val(), c.Type())
	case *types.Var:
		g := e.x.eng.globalFor(c)
		if g == nil {
			sfail("no SSA global for %s", c)
		}
		return SVal{T: e.x.globalGet(e.cur, g), Ty: goT(c.Type())}
	}
	sfail("unsupported object %s", o)
	return SVal{}
}

func (e *Env) constVal(v constant.Value, t types.Type) SVal {
	b, _ := t.Underlying().(*types.Basic)
	switch v.Kind() {
	case constant.String:
		ty := t
		if b != nil && b.Info()&types.IsUntyped != 0 {
			ty = types.Typ[types.String]
		}
		return SVal{T: e.x.w.strLit(constant.StringVal(v)), Ty: goT(ty)}
	case constant.Bool:
		if constant.BoolVal(v) {
			return boolV(tTrue)
		}
		return boolV(tFalse)
	case constant.Int:
		bi, _ := new(big.Int).SetString(v.ExactString(), 10)
		if b != nil && b.Info()&types.IsUntyped != 0 {
			return SVal{Lit: bi}
		}
		if b != nil && b.Info()&types.IsFloat != 0 {
			f, _ := new(big.Float).SetInt(bi).Float64()
			return SVal{T: f64Term(f), Ty: goT(t)}
		}
		return SVal{T: bvLit(e.x.w.sortOf(t).bvWidth(), bi), Ty: goT(t)}
	case constant.Float:
		f, _ := constant.Float64Val(v)
		if b != nil && b.Info()&types.IsUntyped != 0 {
			return SVal{FLit: &f}
		}
		return SVal{T: f64Term(f), Ty: goT(t)}
	}
	sfail("unsupported constant %s", v)
	return SVal{}
}

func (e *Env) evalSelect(n *ESelect) SVal {
	// package-qualified name?
	if id, ok := n.X.(*EIdent); ok {
		if _, bound := e.vars[id.Name]; !bound && e.x.eng.ghostDecl(id.Name) == nil {
			isLocal := e.fn != nil && e.x.localByNameAt(e.fn, id.Name, e.at) != nil
			if !isLocal {
				if p := e.x.eng.pkgByName(id.Name, e.pkg); p != nil {
					o := p.Scope().Lookup(n.Field)
					if o == nil {
						// several packages share the name (io/fs and the module's own fs): take the one that has the member
						for _, c := range e.x.eng.byName[id.Name] {
							if o2 := c.Scope().Lookup(n.Field); o2 != nil && o2.Exported() {
								o = o2
								break
							}
						}
					}
					if o == nil {
						sfail("unknown %s.%s", id.Name, n.Field)
					}
					return e.objVal(o)
				}
			}
		}
		if id.Name == "result" {
			if v, ok := e.vars["result."+n.Field]; ok {
				return v
			}
		}
	}
	v := e.eval(n.X)
	if v.Ty == nil {
		sfail("select on untyped %s", n)
	}
	if v.Ty.Kind == "ev" {
		switch n.Field {
		case "n":
			return SVal{T: T(SBV(64), "(ev_n %s)", v.T.S), Ty: stInt}
		case "b0", "b1", "b2":
			return SVal{T: T(SBV(8), "(ev_%s %s)", n.Field, v.T.S), Ty: goT(types.Typ[types.Uint8])}
		}
		sfail("bad Ev field %s", n.Field)
	}
	if v.Ty.Kind != "go" {
		sfail("select on ghost value %s", n)
	}
	t := v.Ty.Go
	if p, ok := t.Underlying().(*types.Pointer); ok {
		st, ok := p.Elem().Underlying().(*types.Struct)
		if !ok {
			sfail("select through pointer to non-struct in %s", n)
		}
		i := fieldIndex(st, n.Field)
		if i < 0 {
			sfail("no field %s in %s", n.Field, typeShort(p.Elem()))
		}
		hn, hs := e.x.fieldHeap(p.Elem(), i)
		return SVal{T: sel(e.x.heapGet(e.cur, hn, hs), v.T), Ty: goT(st.Field(i).Type())}
	}
	if st, ok := t.Underlying().(*types.Struct); ok {
		i := fieldIndex(st, n.Field)
		if i < 0 {
			sfail("no field %s in %s", n.Field, typeShort(t))
		}
		return SVal{T: e.x.w.dtSelect(v.T, i), Ty: goT(st.Field(i).Type())}
	}
	sfail("cannot select %s from %s", n.Field, typeShort(t))
	return SVal{}
}

func fieldIndex(st *types.Struct, name string) int {
	for i := 0; i < st.NumFields(); i++ {
		if st.Field(i).Name() == name {
			return i
		}
	}
	return -1
}

func (e *Env) evalIndex(n *EIndex) SVal {
	v := e.eval(n.X)
	if v.Ty == nil {
		sfail("index on untyped %s", n)
	}
	switch v.Ty.Kind {
	case "fun", "set":
		k := e.coerce(e.eval(n.I), v.Ty.K)
		if v.Ty.Kind == "set" {
			return boolV(sel(v.T, k.T))
		}
		return SVal{T: sel(v.T, k.T), Ty: v.Ty.V}
	case "go":
		switch u := v.Ty.Go.Underlying().(type) {
		case *types.Map:
			k := e.coerce(e.eval(n.I), goT(u.Key()))
			mv, mp, mvS, mpS, _, _ := e.x.mapHeaps(u)
			val := sel(sel(e.x.heapGet(e.cur, mv, mvS), v.T), k.T)
			pres := sel(sel(e.x.heapGet(e.cur, mp, mpS), v.T), k.T)
			return SVal{T: ite(pres, val, e.x.w.zeroOf(u.Elem())), Ty: goT(u.Elem())}
		case *types.Slice:
			i := e.coerce(e.eval(n.I), stInt)
			hn, hs := e.x.sliceHeap(u.Elem())
			idx := bvadd64(sliceOff(v.T), i.T)
			return SVal{T: sel(sel(e.x.heapGet(e.cur, hn, hs), sliceRef(v.T)), idx), Ty: goT(u.Elem())}
		case *types.Array:
			iv := e.eval(n.I)
			if iv.Lit != nil {
				return SVal{T: e.x.w.dtSelect(v.T, int(iv.Lit.Int64())), Ty: goT(u.Elem())}
			}
			i := e.coerce(iv, stInt)
			return SVal{T: e.x.project(v.T, []PathElem{{Index: &i.T}}), Ty: goT(u.Elem())}
		case *types.Basic:
			if u.Info()&types.IsString != 0 {
				i := e.coerce(e.eval(n.I), stInt)
				return SVal{T: T(SBV(8), "(sbyte %s %s)", v.T.S, i.T.S), Ty: goT(types.Typ[types.Uint8])}
			}
		}
	}
	sfail("cannot index %s (type %s)", n, v.Ty)
	return SVal{}
}

func (e *Env) evalBinary(n *EBinary) SVal {
	switch n.Op {
	case "&&":
		return boolV(and(e.evalBool(n.X), e.evalBool(n.Y)))
	case "||":
		return boolV(or(e.evalBool(n.X), e.evalBool(n.Y)))
	case "==>":
		return boolV(implies(e.evalBool(n.X), e.evalBool(n.Y)))
	case "<==>":
		return boolV(eq(e.evalBool(n.X), e.evalBool(n.Y)))
	}
	a, b := e.eval(n.X), e.eval(n.Y)
	// constant folding of literals
	if a.Lit != nil && b.Lit != nil {
		r := new(big.Int)
		switch n.Op {
		case "+":
			return SVal{Lit: r.Add(a.Lit, b.Lit)}
		case "-":
			return SVal{Lit: r.Sub(a.Lit, b.Lit)}
		case "*":
			return SVal{Lit: r.Mul(a.Lit, b.Lit)}
		case "<<":
			return SVal{Lit: r.Lsh(a.Lit, uint(b.Lit.Int64()))}
		case "|":
			return SVal{Lit: r.Or(a.Lit, b.Lit)}
		}
	}
	if n.Op == "<<" || n.Op == ">>" {
		a = e.concrete(a)
		b = e.coerce(b, a.Ty)
		if b.T.Sort != a.T.Sort {
			// widen/narrow shift count
			b = SVal{T: e.x.convInt(b.T, false, a.T.Sort.bvWidth()), Ty: a.Ty}
		}
	} else {
		a, b = e.unify(a, b)
	}
	if a.Ty == nil || b.Ty == nil {
		sfail("untyped operand in %s", n)
	}
	if a.T.Sort != b.T.Sort {
		// nil vs ref handled by sort equality; else error
		sfail("operand sorts differ in %s: %s vs %s", n, a.T.Sort, b.T.Sort)
	}
	s := a.T.Sort
	signed := stSigned(a.Ty)
	isF := s == SF64
	bin := func(op string) SVal { return SVal{T: T(s, "(%s %s %s)", op, a.T.S, b.T.S), Ty: a.Ty} }
	cmp := func(op string) SVal { return boolV(T(SBool, "(%s %s %s)", op, a.T.S, b.T.S)) }
	switch n.Op {
	case "==":
		if isF {
			return cmp("fp.eq")
		}
		return boolV(eq(a.T, b.T))
	case "!=":
		if isF {
			return boolV(not(T(SBool, "(fp.eq %s %s)", a.T.S, b.T.S)))
		}
		return boolV(not(eq(a.T, b.T)))
	case "<", "<=", ">", ">=":
		if isF {
			return cmp(map[string]string{"<": "fp.lt", "<=": "fp.leq", ">": "fp.gt", ">=": "fp.geq"}[n.Op])
		}
		if !s.isBV() {
			sfail("ordering on non-numeric in %s", n)
		}
		if signed {
			return cmp(map[string]string{"<": "bvslt", "<=": "bvsle", ">": "bvsgt", ">=": "bvsge"}[n.Op])
		}
		return cmp(map[string]string{"<": "bvult", "<=": "bvule", ">": "bvugt", ">=": "bvuge"}[n.Op])
	case "+", "-", "*":
		if isF {
			return SVal{T: T(s, "(%s RNE %s %s)", map[string]string{"+": "fp.add", "-": "fp.sub", "*": "fp.mul"}[n.Op], a.T.S, b.T.S), Ty: a.Ty}
		}
		return bin(map[string]string{"+": "bvadd", "-": "bvsub", "*": "bvmul"}[n.Op])
	case "/":
		if isF {
			return SVal{T: T(s, "(fp.div RNE %s %s)", a.T.S, b.T.S), Ty: a.Ty}
		}
		if signed {
			return bin("bvsdiv")
		}
		return bin("bvudiv")
	case "%":
		if signed {
			return bin("bvsrem")
		}
		return bin("bvurem")
	case "&":
		return bin("bvand")
	case "|":
		return bin("bvor")
	case "^":
		return bin("bvxor")
	case "&^":
		return SVal{T: T(s, "(bvand %s (bvnot %s))", a.T.S, b.T.S), Ty: a.Ty}
	case "<<":
		return bin("bvshl")
	case ">>":
		if signed {
			return bin("bvashr")
		}
		return bin("bvlshr")
	}
	sfail("unsupported operator %s", n.Op)
	return SVal{}
}

var convNames = map[string]types.Type{
	"int": types.Typ[types.Int], "int8": types.Typ[types.Int8], "int16": types.Typ[types.Int16], "int32": types.Typ[types.Int32], "int64": types.Typ[types.Int64],
	"uint": types.Typ[types.Uint], "uint8": types.Typ[types.Uint8], "byte": types.Typ[types.Uint8], "uint16": types.Typ[types.Uint16], "uint32": types.Typ[types.Uint32], "uint64": types.Typ[types.Uint64],
	"float64": types.Typ[types.Float64],
}

func (e *Env) evalCall(n *ECall) SVal {
	x := e.x
	arg := func(i int) SVal {
		if i >= len(n.Args) {
			sfail("missing argument %d in %s", i, n)
		}
		return e.eval(n.Args[i])
	}
	if to, ok := convNames[n.Fn]; ok {
		v := arg(0)
		if v.Lit != nil || v.FLit != nil {
			return e.coerce(v, goT(to))
		}
		return SVal{T: x.convert(v.T, v.Ty.Go, to), Ty: goT(to)}
	}
	switch n.Fn {
	case "old":
		c := *e
		c.cur = e.old
		return c.eval(n.Args[0])
	case "has":
		m := arg(0)
		switch {
		case m.Ty.Kind == "set":
			return boolV(sel(m.T, e.coerce(arg(1), m.Ty.K).T))
		case m.Ty.Kind == "go":
			if u, ok := m.Ty.Go.Underlying().(*types.Map); ok {
				k := e.coerce(arg(1), goT(u.Key()))
				_, mp, _, mpS, _, _ := x.mapHeaps(u)
				return boolV(sel(sel(x.heapGet(e.cur, mp, mpS), m.T), k.T))
			}
		}
		sfail("has() on non-map %s", n)
	case "raw": // raw(m, k): the value stored for k in Go map m WITHOUT the "absent => zero value" case split; meaningful only under has(m, k).
		// It exists because the case split is an `ite`, and a term with an ite cannot serve as a quantifier pattern.
		m := arg(0)
		if m.Ty.Kind == "go" {
			if u, ok := m.Ty.Go.Underlying().(*types.Map); ok {
				k := e.coerce(arg(1), goT(u.Key()))
				mv, _, mvS, _, _, _ := x.mapHeaps(u)
				return SVal{T: sel(sel(x.heapGet(e.cur, mv, mvS), m.T), k.T), Ty: goT(u.Elem())}
			}
		}
		sfail("raw() on non-map %s", n)
	case "empty":
		m := arg(0)
		if u, ok := m.Ty.Go.Underlying().(*types.Map); ok {
			_, mp, _, mpS, ks, _ := x.mapHeaps(u)
			return boolV(eq(sel(x.heapGet(e.cur, mp, mpS), m.T), constArray(arraySort(ks, SBool), tFalse)))
		}
		sfail("empty() on non-map")
	case "keys": // presence set of a Go map as a mathematical set
		m := arg(0)
		if u, ok := m.Ty.Go.Underlying().(*types.Map); ok {
			_, mp, _, mpS, _, _ := x.mapHeaps(u)
			return SVal{T: sel(x.heapGet(e.cur, mp, mpS), m.T), Ty: &SType{Kind: "set", K: goT(u.Key())}}
		}
		sfail("keys() on non-map")
	case "vals": // value array of a Go map
		m := arg(0)
		if u, ok := m.Ty.Go.Underlying().(*types.Map); ok {
			mv, _, mvS, _, _, _ := x.mapHeaps(u)
			return SVal{T: sel(x.heapGet(e.cur, mv, mvS), m.T), Ty: &SType{Kind: "fun", K: goT(u.Key()), V: goT(u.Elem())}}
		}
		sfail("vals() on non-map")
	case "len":
		v := arg(0)
		if v.Ty.Kind == "go" {
			switch u := v.Ty.Go.Underlying().(type) {
			case *types.Slice:
				return SVal{T: sliceLen(v.T), Ty: stInt}
			case *types.Basic:
				return SVal{T: T(SBV(64), "(slen %s)", v.T.S), Ty: stInt}
			case *types.Map:
				_, mp, _, mpS, ks, _ := x.mapHeaps(u)
				return SVal{T: x.card(sel(x.heapGet(e.cur, mp, mpS), v.T), ks), Ty: stInt}
			}
		}
		sfail("len() unsupported for %s", v.Ty)
	case "upd":
		f := arg(0)
		if f.Ty.Kind == "set" {
			return SVal{T: sto(f.T, e.coerce(arg(1), f.Ty.K).T, e.evalBool(n.Args[2])), Ty: f.Ty}
		}
		if f.Ty.Kind != "fun" {
			sfail("upd on non-fun")
		}
		return SVal{T: sto(f.T, e.coerce(arg(1), f.Ty.K).T, e.coerce(arg(2), f.Ty.V).T), Ty: f.Ty}
	case "constfun":
		// constfun(TYPE-as-string-literal, value)
		ty := x.resolveType(n.Args[0].(*EStr).V, e.pkg)
		v := e.coerce(arg(1), ty.V)
		return SVal{T: constArray(x.w.sortOfS(ty), v.T), Ty: ty}
	case "emptyset":
		ty := x.resolveType(n.Args[0].(*EStr).V, e.pkg)
		return SVal{T: constArray(x.w.sortOfS(ty), tFalse), Ty: ty}
	case "evOf":
		v := arg(0)
		return SVal{T: x.evOf(e.cur, v.T), Ty: stEv}
	case "mkev":
		u8 := goT(types.Typ[types.Uint8])
		return SVal{T: T(SEv, "(mk_Ev (_ bv3 64) %s %s %s)", e.coerce(arg(0), u8).T.S, e.coerce(arg(1), u8).T.S, e.coerce(arg(2), u8).T.S), Ty: stEv}
	case "mkarr":
		first := e.concrete(arg(0))
		et := first.Ty
		var elems []Term
		for i := range n.Args {
			elems = append(elems, e.coerce(arg(i), et).T)
		}
		at := types.NewArray(et.Go, int64(len(elems)))
		return SVal{T: x.w.dtMake(x.w.sortOf(at), elems), Ty: goT(at)}
	case "fnref":
		name := n.Args[0].(*EStr).V
		key := name
		if !strings.Contains(name, "#") && e.pkg != nil {
			key = e.pkg.Path() + "#" + name
		}
		return SVal{T: x.w.fnLit(key), Ty: goT(types.Typ[types.UnsafePointer])}
	case "pointsTo":
		// pointsTo(p, v): the struct stored at p equals the struct value v
		pv := arg(0)
		vv := arg(1)
		pt, ok := pv.Ty.Go.Underlying().(*types.Pointer)
		if !ok {
			sfail("pointsTo: first argument is not a pointer")
		}
		stt, ok := pt.Elem().Underlying().(*types.Struct)
		if !ok {
			sfail("pointsTo: not a pointer to struct")
		}
		var cs []Term
		for i := 0; i < stt.NumFields(); i++ {
			hn, hs := x.fieldHeap(pt.Elem(), i)
			cs = append(cs, eq(sel(x.heapGet(e.cur, hn, hs), pv.T), x.w.dtSelect(vv.T, i)))
		}
		return boolV(and(cs...))
	case "zero":
		ty := x.resolveType(n.Args[0].(*EStr).V, e.pkg)
		return SVal{T: x.w.zeroOf(ty.Go), Ty: ty}
	case "deref":
		pv := arg(0)
		pt, ok := pv.Ty.Go.Underlying().(*types.Pointer)
		if !ok {
			sfail("deref of non-pointer")
		}
		return SVal{T: x.loadAddr(e.cur, x.ptrAddr(pv.T, pt.Elem())), Ty: goT(pt.Elem())}
	case "ext":
		// ext("short callee name", args...): the uninterpreted function standing for a side-effect-free extern (kind fn)
		name := n.Args[0].(*EStr).V
		ex := x.eng.externFor(name)
		if ex == nil || ex.Kind != "fn" {
			sfail("ext(%q): not declared as extern of kind fn", name)
		}
		var as []Sort
		var ss []string
		for i := 1; i < len(n.Args); i++ {
			v := e.concrete(arg(i))
			as = append(as, v.T.Sort)
			ss = append(ss, v.T.S)
		}
		rty := x.resolveType(n.Args[len(n.Args)-1].(*EStr).V, e.pkg) // last argument: result type name
		as = as[:len(as)-1]
		ss = ss[:len(ss)-1]
		uf := fmt.Sprintf("uf_%s_%d", sanitize(name), 0)
		for _, a := range as {
			uf += "_" + sortID(a)
		}
		rs := x.w.sortOfS(rty)
		x.w.declareUF(uf, as, rs)
		return SVal{T: T(rs, "(%s %s)", uf, strings.Join(ss, " ")), Ty: rty}
	case "local":
		// local(name): current value of the named local variable (even if a parameter of the same name exists)
		id, ok := n.Args[0].(*EIdent)
		if !ok || e.fn == nil {
			sfail("local() needs an identifier inside a function contract")
		}
		a := x.localByNameAt(e.fn, id.Name, e.at)
		if len(n.Args) == 2 {
			if hid, isHere := n.Args[1].(*EIdent); isHere && hid.Name == "here" {
				// local(name, here): in an invariant of loop N, the declaration of that name in scope at the loop - the latest one
				// before the loop's position. Unlike an ordinal it does not move when a declaration of the same name is added elsewhere.
				if e.loop == nil || e.loop.header == nil {
					sfail("local(name, here) outside a loop invariant")
				}
				a = x.localByNameAt(e.fn, id.Name, firstPos(e.loop.header))
				if a == nil || !a.Pos().IsValid() || a.Pos() > firstPos(e.loop.header) {
					sfail("local(%s, here): no declaration before the loop", id.Name)
				}
				ad := x.resolveAddr(a)
				return SVal{T: x.loadAddr(e.locState(ad), ad), Ty: goT(ad.Typ)}
			}
			// local(name, K): the K-th declaration of that name in source order (several scopes of one function may reuse a name)
			kl, ok := n.Args[1].(*EInt)
			if !ok {
				sfail("local(name, K) needs a literal ordinal or `here`")
			}
			var all []*ssa.Alloc
			for _, b := range e.fn.Blocks {
				for _, in := range b.Instrs {
					if al, ok := in.(*ssa.Alloc); ok && al.Comment == id.Name && al.Pos().IsValid() {
						all = append(all, al)
					}
				}
			}
			sort.Slice(all, func(i, j int) bool { return all[i].Pos() < all[j].Pos() })
			a = nil
			for i, al := range all {
				if fmt.Sprint(i+1) == kl.V {
					a = al
				}
			}
		}
		if a == nil {
			sfail("no local named %s", id.Name)
		}
		ad := x.resolveAddr(a)
		return SVal{T: x.loadAddr(e.locState(ad), ad), Ty: goT(ad.Typ)}
	case "same":
		// same(a, b): identical values (for floats: bitwise the same value incl. NaN, unlike Go ==)
		a, b := e.unify(arg(0), arg(1))
		a, b = e.concrete(a), e.concrete(b)
		return boolV(eq(a.T, b.T))
	case "box":
		// box(x): the interface value holding x
		v := e.concrete(arg(0))
		name := "box_" + sortID(v.T.Sort)
		x.w.declareUF(name, []Sort{v.T.Sort}, SRef)
		return SVal{T: T(SRef, "(%s %s)", name, v.T.S), Ty: goT(types.NewInterfaceType(nil, nil))}
	case "cbpost":
		// cbpost(q, d): the walkpost predicate of the callback passed at this call (true when it declares none)
		if x.cbPred == "" {
			return boolV(tTrue)
		}
		return e.eval(&ECall{Fn: x.cbPred, Args: n.Args})
	case "allocated":
		v := arg(0)
		r := v.T
		if r.Sort == SSlice {
			r = sliceRef(r)
		}
		return boolV(sel(x.heapGet(e.cur, allocHeap, arraySort(SRef, SBool)), r))
	case "fresh":
		v := arg(0)
		r := v.T
		if r.Sort == SSlice {
			r = sliceRef(r)
		}
		a := arraySort(SRef, SBool)
		return boolV(and(not(eq(r, tNil)), not(sel(x.heapGet(e.old, allocHeap, a), r)), sel(x.heapGet(e.cur, allocHeap, a), r)))
	case "ref":
		v := arg(0)
		if v.T.Sort == SSlice {
			return SVal{T: sliceRef(v.T), Ty: goT(types.Typ[types.UnsafePointer])}
		}
		return SVal{T: v.T, Ty: goT(types.Typ[types.UnsafePointer])}
	case "abs":
		v := e.concrete(arg(0))
		return SVal{T: T(SF64, "(fp.abs %s)", v.T.S), Ty: v.Ty}
	case "round":
		v := e.concrete(arg(0))
		return SVal{T: T(SF64, "(fp.roundToIntegral RNA %s)", v.T.S), Ty: v.Ty}
	case "floor", "ceil", "trunc":
		v := e.concrete(arg(0))
		mode := map[string]string{"floor": "RTN", "ceil": "RTP", "trunc": "RTZ"}[n.Fn]
		return SVal{T: T(SF64, "(fp.roundToIntegral %s %s)", mode, v.T.S), Ty: v.Ty}
	case "isNaN":
		return boolV(T(SBool, "(fp.isNaN %s)", arg(0).T.S))
	case "cnt":
		// cnt(m, v): number of keys of Go map m mapped to value v
		m := arg(0)
		u, ok := m.Ty.Go.Underlying().(*types.Map)
		if !ok {
			sfail("cnt on non-map")
		}
		v := e.coerce(arg(1), goT(u.Elem()))
		mv, mp, mvS, mpS, ks, vs := x.mapHeaps(u)
		return SVal{T: x.cnt(sel(x.heapGet(e.cur, mv, mvS), m.T), sel(x.heapGet(e.cur, mp, mpS), m.T), v.T, ks, vs), Ty: stInt}
	case "visitedIn":
		// visitedIn(N, k): key k was already produced by the map-range loop number N
		nl, ok := n.Args[0].(*EInt)
		if !ok {
			sfail("visitedIn(N, k) needs a literal loop number")
		}
		for _, li := range x.loops {
			if fmt.Sprint(li.num) == nl.V && li.iter != nil {
				vs, ok := e.locs().iters[li.iter]
				if !ok {
					sfail("visitedIn(%s): iterator not started", nl.V)
				}
				ks, _ := vs.Sort.arrayParts()
				k := arg(1)
				if k.Lit != nil {
					k = SVal{T: bvLit(ks.bvWidth(), k.Lit)}
				}
				return boolV(sel(vs, k.T))
			}
		}
		sfail("visitedIn(%s): no such map-range loop", nl.V)
	case "visited":
		if e.loop == nil || e.loop.iter == nil {
			sfail("visited() outside a map-range loop annotation")
		}
		vs, ok := e.locs().iters[e.loop.iter]
		if !ok {
			sfail("no iterator state")
		}
		ks, _ := vs.Sort.arrayParts()
		k := arg(0)
		if k.Lit != nil {
			k = SVal{T: bvLit(ks.bvWidth(), k.Lit)}
		}
		return boolV(sel(vs, k.T))
	case "idx":
		if len(n.Args) == 1 {
			// idx(N): range index of loop N of the annotated function
			nl, ok := n.Args[0].(*EInt)
			if !ok {
				sfail("idx(N) needs a literal loop number")
			}
			for _, li := range x.loops {
				if fmt.Sprint(li.num) == nl.V && li.idxAlloc != nil {
					v, ok := e.locs().locals[li.idxAlloc]
					if !ok {
						sfail("idx(%s): range index not initialised", nl.V)
					}
					return SVal{T: T(SBV(64), "(bvadd %s (_ bv1 64))", v.S), Ty: stInt}
				}
			}
			sfail("idx(%s): no such slice-range loop", nl.V)
		}
		if e.loop != nil && e.loop.idxAlloc != nil {
			v, ok := e.locs().locals[e.loop.idxAlloc]
			if !ok {
				sfail("idx(): range index not initialised")
			}
			return SVal{T: T(SBV(64), "(bvadd %s (_ bv1 64))", v.S), Ty: stInt}
		}
		if e.loop == nil || e.loop.idxPhi == nil {
			sfail("idx() outside a slice-range loop annotation")
		}
		return SVal{T: T(SBV(64), "(bvadd %s (_ bv1 64))", e.x.vals[e.loop.idxPhi].S), Ty: stInt}
	}
	// predicate / spec fn
	if pd := x.eng.pred(n.Fn); pd != nil {
		if len(n.Args) != len(pd.Params) {
			sfail("wrong argument count for %s", n.Fn)
		}
		if e.depth > 40 {
			sfail("predicate recursion too deep at %s", n.Fn)
		}
		c := e.child()
		c.depth = e.depth + 1
		ppkg := x.eng.predPkg[n.Fn]
		for i, p := range pd.Params {
			ty := x.resolveType(p.Type, ppkg)
			c.vars[p.Name] = e.coerce(e.eval(n.Args[i]), ty)
			if c.vars[p.Name].T.Sort != x.w.sortOfS(ty) {
				sfail("argument %d of %s has sort %s, want %s", i, n.Fn, c.vars[p.Name].T.Sort, x.w.sortOfS(ty))
			}
			v := c.vars[p.Name]
			v.Ty = ty
			c.vars[p.Name] = v
		}
		c.pkg = ppkg
		c.fn = nil
		if pd.Body == nil {
			rt := x.resolveType(pd.Ret, ppkg)
			var as []Sort
			var ss []string
			for _, p := range pd.Params {
				v := e.concrete(c.vars[p.Name])
				as = append(as, v.T.Sort)
				ss = append(ss, v.T.S)
			}
			uf := "sf_" + sanitize(pd.Name)
			rs := x.w.sortOfS(rt)
			x.w.declareUF(uf, as, rs)
			if len(ss) == 0 {
				return SVal{T: T(rs, "%s", uf), Ty: rt}
			}
			return SVal{T: T(rs, "(%s %s)", uf, strings.Join(ss, " ")), Ty: rt}
		}
		r := c.eval(pd.Body)
		if pd.Ret != "bool" {
			rt := x.resolveType(pd.Ret, ppkg)
			r = c.coerce(r, rt)
			r.Ty = rt
		}
		return r
	}
	sfail("unknown function %q", n.Fn)
	return SVal{}
}

// explicitPattern: for quantifiers with several bound variables one of which only occurs as a slice index (inside bvadd),
// the solvers' automatic trigger inference finds nothing; give the smallest select/UF term containing all bound variables.
func explicitPattern(body string, vars []string, single bool) string {
	if (len(vars) < 2 && !single) || !strings.Contains(body, "(bvadd ") {
		return ""
	}
	needs := false
	for _, v := range vars {
		if strings.Contains(body, " "+v+")") && strings.Contains(body, "(bvadd ") {
			// variable used as the last operand of some application; check it occurs under a bvadd
			if idx := strings.Index(body, v); idx >= 0 {
				needs = needs || underBvadd(body, v)
			}
		}
	}
	if !needs {
		return ""
	}
	best := ""
	var walk func(t string)
	walk = func(t string) {
		if !strings.HasPrefix(t, "(") {
			return
		}
		args := splitSexprArgs(t)
		if len(args) == 0 {
			return
		}
		head := args[0]
		ok := head == "select" || strings.HasPrefix(head, "uf_") || strings.HasPrefix(head, "cnt_") || strings.HasPrefix(head, "S_") || strings.HasPrefix(head, "A")
		if ok && !strings.Contains(t, "(ite ") && !strings.Contains(t, "(forall ") && !strings.Contains(t, "(exists ") {
			all := true
			for _, v := range vars {
				if !containsSym(t, v) {
					all = false
				}
			}
			if all && (best == "" || len(t) < len(best)) {
				best = t
			}
		}
		for _, a := range args[1:] {
			walk(a)
		}
		if strings.HasPrefix(head, "(") {
			walk(head)
		}
	}
	walk(body)
	return best
}

func containsSym(t, v string) bool {
	i := 0
	for {
		k := strings.Index(t[i:], v)
		if k < 0 {
			return false
		}
		k += i
		end := k + len(v)
		before := k == 0 || t[k-1] == ' ' || t[k-1] == '('
		after := end == len(t) || t[end] == ' ' || t[end] == ')'
		if before && after {
			return true
		}
		i = end
	}
}

func underBvadd(body, v string) bool {
	i := 0
	for {
		k := strings.Index(body[i:], "(bvadd ")
		if k < 0 {
			return false
		}
		k += i
		// find matching paren
		depth := 0
		end := k
		for j := k; j < len(body); j++ {
			if body[j] == '(' {
				depth++
			} else if body[j] == ')' {
				depth--
				if depth == 0 {
					end = j
					break
				}
			}
		}
		if containsSym(body[k:end+1], v) {
			return true
		}
		i = k + 7
	}
}
