package main

// SMT term construction, sorts, and the per-function VC context.

import (
	"crypto/sha1"
	"fmt"
	"go/types"
	"math/big"
	"os"
	"sort"
	"strings"
	"sync"
)

type Sort string

const (
	SBool  Sort = "Bool"
	SRef   Sort = "Ref"
	SStr   Sort = "Str"
	SF64   Sort = "(_ FloatingPoint 11 53)"
	SF32   Sort = "(_ FloatingPoint 8 24)"
	SSlice Sort = "Slice"
	SEv    Sort = "Ev"
)

func SBV(n int) Sort { return Sort(fmt.Sprintf("(_ BitVec %d)", n)) }

func (s Sort) isBV() bool { return strings.HasPrefix(string(s), "(_ BitVec ") }
func (s Sort) bvWidth() int {
	var n int
	fmt.Sscanf(string(s), "(_ BitVec %d)", &n)
	return n
}
func arraySort(k, v Sort) Sort { return Sort("(Array " + string(k) + " " + string(v) + ")") }
func (s Sort) isArray() bool   { return strings.HasPrefix(string(s), "(Array ") }

// arrayParts splits "(Array K V)" into K and V.
func (s Sort) arrayParts() (Sort, Sort) {
	inner := string(s)[len("(Array ") : len(s)-1]
	depth := 0
	for i := 0; i < len(inner); i++ {
		switch inner[i] {
		case '(':
			depth++
		case ')':
			depth--
		case ' ':
			if depth == 0 {
				return Sort(inner[:i]), Sort(inner[i+1:])
			}
		}
	}
	panic("bad array sort " + string(s))
}

func sanitize(s string) string {
	var sb strings.Builder
	for _, c := range s {
		if (c >= 'a' && c <= 'z') || (c >= 'A' && c <= 'Z') || (c >= '0' && c <= '9') {
			sb.WriteRune(c)
		} else if c == ' ' || c == '(' || c == ')' {
			continue
		} else {
			sb.WriteByte('_')
		}
	}
	return sb.String()
}

func sortID(s Sort) string {
	switch {
	case s.isBV():
		return fmt.Sprintf("BV%d", s.bvWidth())
	case s == SF64:
		return "F64"
	case s == SF32:
		return "F32"
	}
	return sanitize(string(s))
}

type Term struct {
	S    string
	Sort Sort
}

func T(sort Sort, format string, a ...interface{}) Term {
	return Term{fmt.Sprintf(format, a...), sort}
}

var (
	tTrue  = Term{"true", SBool}
	tFalse = Term{"false", SBool}
	tNil   = Term{"nil", SRef}
)

func bvLit(width int, v *big.Int) Term {
	m := new(big.Int).Lsh(big.NewInt(1), uint(width))
	x := new(big.Int).Mod(v, m)
	if x.Sign() < 0 {
		x.Add(x, m)
	}
	return Term{fmt.Sprintf("(_ bv%s %d)", x.String(), width), SBV(width)}
}
func bvInt(width int, v int64) Term { return bvLit(width, big.NewInt(v)) }

func and(ts ...Term) Term {
	var parts []string
	for _, t := range ts {
		if t.S == "true" {
			continue
		}
		if t.S == "false" {
			return tFalse
		}
		parts = append(parts, t.S)
	}
	switch len(parts) {
	case 0:
		return tTrue
	case 1:
		return Term{parts[0], SBool}
	}
	return Term{"(and " + strings.Join(parts, " ") + ")", SBool}
}
func or(ts ...Term) Term {
	var parts []string
	for _, t := range ts {
		if t.S == "false" {
			continue
		}
		if t.S == "true" {
			return tTrue
		}
		parts = append(parts, t.S)
	}
	switch len(parts) {
	case 0:
		return tFalse
	case 1:
		return Term{parts[0], SBool}
	}
	return Term{"(or " + strings.Join(parts, " ") + ")", SBool}
}
func not(t Term) Term {
	if t.S == "true" {
		return tFalse
	}
	if t.S == "false" {
		return tTrue
	}
	return Term{"(not " + t.S + ")", SBool}
}
func implies(a, b Term) Term {
	if a.S == "true" {
		return b
	}
	if a.S == "false" || b.S == "true" {
		return tTrue
	}
	return Term{"(=> " + a.S + " " + b.S + ")", SBool}
}
func eq(a, b Term) Term {
	if a.S == b.S {
		return tTrue
	}
	if a.Sort == SF64 || a.Sort == SF32 {
		// structural equality used for definitions; Go == uses fp.eq (see binop)
		return Term{"(= " + a.S + " " + b.S + ")", SBool}
	}
	return Term{"(= " + a.S + " " + b.S + ")", SBool}
}
func ite(c, a, b Term) Term {
	if c.S == "true" {
		return a
	}
	if c.S == "false" {
		return b
	}
	if a.S == b.S {
		return a
	}
	return Term{"(ite " + c.S + " " + a.S + " " + b.S + ")", a.Sort}
}

// curDefs: defining terms of the constants introduced by VC.define (generation is single-threaded per VC)
var curDefs map[string]string

func sel(arr, idx Term) Term {
	_, v := arr.Sort.arrayParts()
	// peephole: select(store(a, i, x), i) = x, looking through one level of definition
	body := arr.S
	if d, ok := curDefs[body]; ok {
		body = d
	}
	if strings.HasPrefix(body, "(store ") {
		args := splitSexprArgs(body)
		if len(args) == 4 && args[2] == idx.S {
			return Term{args[3], v}
		}
	}
	return Term{"(select " + arr.S + " " + idx.S + ")", v}
}

func bvadd64(a, b Term) Term {
	if a.S == "(_ bv0 64)" {
		return b
	}
	if b.S == "(_ bv0 64)" {
		return a
	}
	return Term{"(bvadd " + a.S + " " + b.S + ")", SBV(64)}
}
func sto(arr, idx, val Term) Term {
	return Term{"(store " + arr.S + " " + idx.S + " " + val.S + ")", arr.Sort}
}
func constArray(s Sort, v Term) Term {
	return Term{"((as const " + string(s) + ") " + v.S + ")", s}
}

// ---- datatypes for structs / arrays

type dtField struct {
	Name string
	Sort Sort
	GoT  types.Type
}
type datatype struct {
	Name   string
	Ctor   string
	Fields []dtField
}

type World struct {
	dts      map[string]*datatype // by sort name
	dtOrder  []string
	structOf map[string]string // struct identity string -> sort name
	strConst map[string]string // literal -> const name
	strOrder []string
	fnConst  map[string]string // function name -> const
	fnOrder  []string
	ufs      map[string]string // name -> decl
	ufOrder  []string
}

func newWorld() *World {
	return &World{dts: map[string]*datatype{}, structOf: map[string]string{}, strConst: map[string]string{}, fnConst: map[string]string{}, ufs: map[string]string{}}
}

func (w *World) declareUF(name string, args []Sort, ret Sort) {
	if _, ok := w.ufs[name]; ok {
		return
	}
	var as []string
	for _, a := range args {
		as = append(as, string(a))
	}
	w.ufs[name] = fmt.Sprintf("(declare-fun %s (%s) %s)", name, strings.Join(as, " "), ret)
	w.ufOrder = append(w.ufOrder, name)
}

func shortHash(s string) string {
	h := sha1.Sum([]byte(s))
	return fmt.Sprintf("%x", h[:4])
}

func (w *World) strLit(s string) Term {
	if c, ok := w.strConst[s]; ok {
		return Term{c, SStr}
	}
	name := fmt.Sprintf("str_%d_%s", len(w.strOrder), sanitize(s))
	if len(name) > 40 {
		name = name[:40]
	}
	w.strConst[s] = name
	w.strOrder = append(w.strOrder, s)
	return Term{name, SStr}
}

func (w *World) fnLit(name string) Term {
	if c, ok := w.fnConst[name]; ok {
		return Term{c, SRef}
	}
	c := fmt.Sprintf("fn_%d_%s", len(w.fnOrder), sanitize(name))
	w.fnConst[name] = c
	w.fnOrder = append(w.fnOrder, name)
	return Term{c, SRef}
}

func typeKey(t types.Type) string {
	return types.TypeString(t, func(p *types.Package) string { return p.Path() })
}

func typeShort(t types.Type) string {
	return types.TypeString(t, func(p *types.Package) string { return p.Name() })
}

// sortOf maps a Go type to an SMT sort (declaring datatypes on demand).
func (w *World) sortOf(t types.Type) Sort {
	switch u := t.Underlying().(type) {
	case *types.Basic:
		switch {
		case u.Info()&types.IsBoolean != 0:
			return SBool
		case u.Info()&types.IsInteger != 0:
			return SBV(intWidth(u))
		case u.Kind() == types.Float64 || u.Kind() == types.UntypedFloat:
			return SF64
		case u.Kind() == types.Float32:
			return SF32
		case u.Info()&types.IsString != 0:
			return SStr
		case u.Kind() == types.UnsafePointer || u.Kind() == types.UntypedNil:
			return SRef
		}
		panic("unsupported basic type " + u.String())
	case *types.Pointer, *types.Map, *types.Chan, *types.Signature, *types.Interface:
		return SRef
	case *types.Slice:
		return SSlice
	case *types.Struct:
		return w.structSort(t, u)
	case *types.Array:
		return w.arrayDT(u)
	case *types.Tuple:
		if u.Len() == 0 {
			return SBool
		}
		panic("tuple has no sort")
	}
	panic("unsupported type " + t.String())
}

func intWidth(b *types.Basic) int {
	switch b.Kind() {
	case types.Int8, types.Uint8:
		return 8
	case types.Int16, types.Uint16:
		return 16
	case types.Int32, types.Uint32:
		return 32
	}
	return 64
}

func isSigned(t types.Type) bool {
	b, ok := t.Underlying().(*types.Basic)
	if !ok {
		return false
	}
	return b.Info()&types.IsInteger != 0 && b.Info()&types.IsUnsigned == 0
}

func (w *World) structSort(t types.Type, u *types.Struct) Sort {
	key := typeKey(u)
	if n, ok := w.structOf[key]; ok {
		return Sort(n)
	}
	name := ""
	if nt, ok := t.(*types.Named); ok {
		name = "S_" + sanitize(nt.Obj().Name()) + "_" + shortHash(key)
	} else {
		name = "S_anon_" + shortHash(key)
	}
	w.structOf[key] = name
	dt := &datatype{Name: name, Ctor: "mk_" + name}
	w.dts[name] = dt // reserve (recursive types go through Ref, so no cycles)
	for i := 0; i < u.NumFields(); i++ {
		f := u.Field(i)
		fs := w.sortOf(f.Type())
		dt.Fields = append(dt.Fields, dtField{Name: fmt.Sprintf("%s_%d%s", name, i, sanitize(f.Name())), Sort: fs, GoT: f.Type()})
	}
	w.dtOrder = append(w.dtOrder, name)
	return Sort(name)
}

func (w *World) arrayDT(a *types.Array) Sort {
	es := w.sortOf(a.Elem())
	name := fmt.Sprintf("A%d_%s", a.Len(), sortID(es))
	if _, ok := w.dts[name]; ok {
		return Sort(name)
	}
	if a.Len() > 16 {
		panic(fmt.Sprintf("array too long for datatype model: %s", a))
	}
	dt := &datatype{Name: name, Ctor: "mk_" + name}
	for i := int64(0); i < a.Len(); i++ {
		dt.Fields = append(dt.Fields, dtField{Name: fmt.Sprintf("%s_e%d", name, i), Sort: es, GoT: a.Elem()})
	}
	w.dts[name] = dt
	w.dtOrder = append(w.dtOrder, name)
	return Sort(name)
}

func (w *World) dtOf(s Sort) *datatype { return w.dts[string(s)] }

func (w *World) dtSelect(v Term, i int) Term {
	dt := w.dtOf(v.Sort)
	if dt == nil {
		panic("dtSelect on non-datatype " + string(v.Sort))
	}
	f := dt.Fields[i]
	// simplify (sel (mk a b c)) when syntactically visible
	if strings.HasPrefix(v.S, "("+dt.Ctor+" ") {
		args := splitSexprArgs(v.S)
		if len(args) == len(dt.Fields)+1 {
			return Term{args[i+1], f.Sort}
		}
	}
	return Term{"(" + f.Name + " " + v.S + ")", f.Sort}
}

func (w *World) dtUpdate(v Term, i int, nv Term) Term {
	dt := w.dtOf(v.Sort)
	parts := []string{dt.Ctor}
	for j := range dt.Fields {
		if j == i {
			parts = append(parts, nv.S)
		} else {
			parts = append(parts, w.dtSelect(v, j).S)
		}
	}
	return Term{"(" + strings.Join(parts, " ") + ")", v.Sort}
}

func (w *World) dtMake(s Sort, fields []Term) Term {
	dt := w.dtOf(s)
	if len(dt.Fields) == 0 {
		return Term{dt.Ctor, s}
	}
	parts := []string{dt.Ctor}
	for _, f := range fields {
		parts = append(parts, f.S)
	}
	return Term{"(" + strings.Join(parts, " ") + ")", s}
}

// splitSexprArgs splits "(f a (b c) d)" into ["f","a","(b c)","d"].
func splitSexprArgs(s string) []string {
	s = s[1 : len(s)-1]
	var out []string
	depth := 0
	start := -1
	inBar := false
	for i := 0; i < len(s); i++ {
		c := s[i]
		if inBar {
			if c == '|' {
				inBar = false
			}
			continue
		}
		switch c {
		case '|':
			inBar = true
			if start < 0 {
				start = i
			}
		case '(':
			if depth == 0 && start < 0 {
				start = i
			}
			depth++
		case ')':
			depth--
		case ' ', '\n', '\t':
			if depth == 0 && start >= 0 {
				out = append(out, s[start:i])
				start = -1
			}
		default:
			if start < 0 {
				start = i
			}
		}
	}
	if start >= 0 {
		out = append(out, s[start:])
	}
	return out
}

// zero value of a Go type
func (w *World) zeroOf(t types.Type) Term {
	s := w.sortOf(t)
	return w.zeroOfSort(s, t)
}

func (w *World) zeroOfSort(s Sort, t types.Type) Term {
	switch {
	case s == SBool:
		return tFalse
	case s.isBV():
		return bvInt(s.bvWidth(), 0)
	case s == SF64:
		return Term{"(_ +zero 11 53)", SF64}
	case s == SF32:
		return Term{"(_ +zero 8 24)", SF32}
	case s == SStr:
		return w.strLit("")
	case s == SRef:
		return tNil
	case s == SSlice:
		return nilSlice
	}
	if dt := w.dtOf(s); dt != nil {
		var fs []Term
		for _, f := range dt.Fields {
			fs = append(fs, w.zeroOfSort(f.Sort, f.GoT))
		}
		return w.dtMake(s, fs)
	}
	if s.isArray() {
		_, v := s.arrayParts()
		return constArray(s, w.zeroOfSort(v, nil))
	}
	panic("no zero for sort " + string(s))
}

var nilSlice = Term{"(mk_Slice nil (_ bv0 64) (_ bv0 64) (_ bv0 64))", SSlice}

func mkSlice(ref, off, ln, cp Term) Term {
	return Term{"(mk_Slice " + ref.S + " " + off.S + " " + ln.S + " " + cp.S + ")", SSlice}
}
func sliceRef(s Term) Term { return sliceSel("sl_ref", s, SRef, 1) }
func sliceOff(s Term) Term { return sliceSel("sl_off", s, SBV(64), 2) }
func sliceLen(s Term) Term { return sliceSel("sl_len", s, SBV(64), 3) }
func sliceCap(s Term) Term { return sliceSel("sl_cap", s, SBV(64), 4) }
func sliceSel(f string, s Term, so Sort, i int) Term {
	if strings.HasPrefix(s.S, "(mk_Slice ") {
		a := splitSexprArgs(s.S)
		if len(a) == 5 {
			return Term{a[i], so}
		}
	}
	return Term{"(" + f + " " + s.S + ")", so}
}

// ---- VC context

type Assertion struct {
	S        string
	Label    string
	FloatDef bool // definition of a float-arithmetic result: may be dropped (over-approximation) for non-float obligations
	syms     []string
	symsDone bool
	defOf    string // for definitions: the defined constant
	guard    string // for (=> guard fact): the guard constant
	Block    int    // CFG block being executed when the assertion was made (-1: function-global)
	Stage    int    // float pipeline stage (cut points) of a FloatDef
	Tags     []string // property tags of the clause the assumption comes from (nil: always relevant)
}

type Decl struct {
	Name string
	Sort Sort
}

type Obligation struct {
	Name     string
	Kind     string
	Tags     []string
	Func     string
	Goal     Term
	PC       Term
	NAssert  int // prefix of assertions available
	NDecl    int
	Src      string
	Pos      string
	Cover    bool // expect sat (vacuity guard)
	Observe  []Observation
	Extra    []string // extra assertion strings (local to this obligation)
	Block    int      // CFG block of the program point (-1: unknown/global)
	BlockSet bool
	Stage    int // float pipeline stage at the program point
}

// Observation: terms whose model values are requested for replay
type Observation struct {
	Label string
	T     Term
}

type VC struct {
	obsCone  bool // keep the definitions of observed terms (replay query; single-threaded use)
	w        *World
	decls    []Decl
	asserts  []Assertion
	obls     []*Obligation
	nfresh   int
	fn       string
	declared map[string]bool
	curBlock int
	stage    int
	anc      map[int]map[int]bool // anc[b][a]: block a can reach block b
	prepMu   sync.Mutex
	nprep    int
}

func newVC(w *World, fn string) *VC {
	return &VC{w: w, fn: fn, declared: map[string]bool{}, curBlock: -1}
}

func (vc *VC) fresh(prefix string, s Sort) Term {
	vc.nfresh++
	name := fmt.Sprintf("%s!%d", sanitize(prefix), vc.nfresh)
	vc.decls = append(vc.decls, Decl{name, s})
	vc.declared[name] = true
	return Term{name, s}
}

func (vc *VC) named(name string, s Sort) Term {
	if !vc.declared[name] {
		vc.decls = append(vc.decls, Decl{name, s})
		vc.declared[name] = true
	}
	return Term{name, s}
}

// define introduces a fresh constant equal to t (keeps VC size linear).
func (vc *VC) define(prefix string, t Term) Term {
	if len(t.S) < 48 {
		return t
	}
	c := vc.fresh(prefix, t.Sort)
	vc.asserts = append(vc.asserts, Assertion{S: "(= " + c.S + " " + t.S + ")", Label: "def", Block: -1})
	if curDefs != nil && strings.HasPrefix(t.S, "(store ") {
		curDefs[c.S] = t.S
	}
	return c
}

// defineFloat: result of an IEEE operation; always named so that it can be abstracted per obligation.
func (vc *VC) defineFloat(prefix string, t Term) Term {
	c := vc.fresh(prefix, t.Sort)
	vc.asserts = append(vc.asserts, Assertion{S: "(= " + c.S + " " + t.S + ")", Label: "fdef", FloatDef: true, Block: -1, Stage: vc.stage})
	return c
}

func (vc *VC) hasFloatDefs(o *Obligation) bool {
	for _, a := range vc.asserts[:o.NAssert] {
		if a.FloatDef {
			return true
		}
	}
	return false
}

// assumeTagged: an assumption that stems from a tagged contract clause; it is only used for obligations sharing a tag
// (or untagged ones). Leaving an assumption out can only make a proof fail.
func (vc *VC) assumeTagged(t Term, label string, tags []string) {
	if t.S == "true" {
		return
	}
	for _, part := range splitGoal(t.S, 0) {
		vc.asserts = append(vc.asserts, Assertion{S: part, Label: label, Block: vc.curBlock, Tags: tags})
	}
}

func disjointTags(a, b []string) bool {
	for _, x := range a {
		for _, y := range b {
			if x == y {
				return false
			}
		}
	}
	return true
}

func (vc *VC) assume(t Term, label string) {
	if t.S == "true" {
		return
	}
	for _, part := range splitGoal(t.S, 0) {
		vc.asserts = append(vc.asserts, Assertion{S: part, Label: label, Block: vc.curBlock})
	}
}

func (vc *VC) oblige(o *Obligation) {
	o.NAssert = len(vc.asserts)
	o.NDecl = len(vc.decls)
	o.Func = vc.fn
	if !o.BlockSet {
		o.Block = vc.curBlock
	}
	o.Stage = vc.stage
	if o.Cover {
		vc.obls = append(vc.obls, o)
		return
	}
	parts := splitGoal(o.Goal.S, 0)
	if len(parts) <= 1 {
		vc.obls = append(vc.obls, o)
		return
	}
	for k, p := range parts {
		c := *o
		c.Goal = Term{p, SBool}
		c.Name = fmt.Sprintf("%s/%d", o.Name, k+1)
		vc.obls = append(vc.obls, &c)
	}
}

// splitGoal splits a goal into conjuncts: (and a b) -> a, b ; (=> h (and a b)) -> (=> h a), (=> h b).
func splitGoal(g string, depth int) []string {
	if depth > 200 || !strings.HasPrefix(g, "(") {
		return []string{g}
	}
	switch {
	case strings.HasPrefix(g, "(and "):
		args := splitSexprArgs(g)
		var out []string
		for _, a := range args[1:] {
			out = append(out, splitGoal(a, depth+1)...)
		}
		return out
	case strings.HasPrefix(g, "(forall "):
		args := splitSexprArgs(g)
		if len(args) != 3 || strings.HasPrefix(args[2], "(! ") {
			return []string{g}
		}
		sub := splitGoal(args[2], depth+1)
		if len(sub) <= 1 {
			return []string{g}
		}
		var out []string
		for _, s := range sub {
			out = append(out, "(forall "+args[1]+" "+s+")")
		}
		return out
	case strings.HasPrefix(g, "(=> "):
		args := splitSexprArgs(g)
		if len(args) != 3 {
			return []string{g}
		}
		sub := splitGoal(args[2], depth+1)
		if len(sub) <= 1 {
			return []string{g}
		}
		var out []string
		for _, s := range sub {
			out = append(out, "(=> "+args[1]+" "+s+")")
		}
		return out
	}
	return []string{g}
}

// ---- SMT-LIB emission

func (w *World) prelude(needFP bool) string {
	var sb strings.Builder
	sb.WriteString("(declare-sort Ref 0)\n(declare-sort Str 0)\n(declare-const nil Ref)\n")
	sb.WriteString("(declare-datatypes ((Slice 0)) (((mk_Slice (sl_ref Ref) (sl_off (_ BitVec 64)) (sl_len (_ BitVec 64)) (sl_cap (_ BitVec 64))))))\n")
	sb.WriteString("(declare-datatypes ((Ev 0)) (((mk_Ev (ev_n (_ BitVec 64)) (ev_b0 (_ BitVec 8)) (ev_b1 (_ BitVec 8)) (ev_b2 (_ BitVec 8))))))\n")
	for _, n := range w.dtOrder {
		dt := w.dts[n]
		if len(dt.Fields) == 0 {
			fmt.Fprintf(&sb, "(declare-datatypes ((%s 0)) (((%s))))\n", dt.Name, dt.Ctor)
			continue
		}
		var fs []string
		for _, f := range dt.Fields {
			fs = append(fs, fmt.Sprintf("(%s %s)", f.Name, f.Sort))
		}
		fmt.Fprintf(&sb, "(declare-datatypes ((%s 0)) (((%s %s))))\n", dt.Name, dt.Ctor, strings.Join(fs, " "))
	}
	sb.WriteString("(declare-fun slen (Str) (_ BitVec 64))\n(declare-fun sbyte (Str (_ BitVec 64)) (_ BitVec 8))\n")
	var names []string
	for _, s := range w.strOrder {
		c := w.strConst[s]
		fmt.Fprintf(&sb, "(declare-const %s Str)\n", c)
		fmt.Fprintf(&sb, "(assert (= (slen %s) (_ bv%d 64)))\n", c, len(s))
		if len(s) <= 24 {
			for i := 0; i < len(s); i++ {
				fmt.Fprintf(&sb, "(assert (= (sbyte %s (_ bv%d 64)) (_ bv%d 8)))\n", c, i, s[i])
			}
		}
		names = append(names, c)
	}
	if len(names) > 1 {
		fmt.Fprintf(&sb, "(assert (distinct %s))\n", strings.Join(names, " "))
	}
	names = nil
	for _, f := range w.fnOrder {
		c := w.fnConst[f]
		fmt.Fprintf(&sb, "(declare-const %s Ref)\n", c)
		names = append(names, c)
	}
	if len(names) > 0 {
		fmt.Fprintf(&sb, "(assert (distinct nil %s))\n", strings.Join(names, " "))
	}
	ufs := append([]string(nil), w.ufOrder...)
	sort.Strings(ufs)
	for _, u := range ufs {
		sb.WriteString(w.ufs[u] + "\n")
	}
	return sb.String()
}

func (vc *VC) smtFor(o *Obligation, produceModels bool) string {
	return vc.smtForOpt(o, produceModels, 0)
}

// abstractFloats: 0 = all float operations exact; 1 = all float results unconstrained;
// 2 = only the operations of the obligation's own pipeline stage exact (earlier stages are represented by their cut facts)
func (vc *VC) smtForOpt(o *Obligation, produceModels bool, abstractFloats int) string {
	var sb strings.Builder
	if produceModels {
		sb.WriteString("(set-option :produce-models true)\n")
	}
	sb.WriteString("(set-logic ALL)\n")
	sb.WriteString(vc.w.prelude(true))
	keep, used := vc.relevant(o, abstractFloats)
	for _, d := range vc.decls[:o.NDecl] {
		if used[d.Name] {
			fmt.Fprintf(&sb, "(declare-const %s %s)\n", d.Name, d.Sort)
		}
	}
	for i, a := range vc.asserts[:o.NAssert] {
		if keep[i] {
			fmt.Fprintf(&sb, "(assert %s)\n", a.S)
		}
	}
	for _, e := range o.Extra {
		fmt.Fprintf(&sb, "(assert %s)\n", e)
	}
	fmt.Fprintf(&sb, "(assert %s)\n", o.PC.S)
	if !o.Cover {
		fmt.Fprintf(&sb, "(assert (not %s))\n", o.Goal.S)
	}
	sb.WriteString("(check-sat)\n")
	if produceModels && len(o.Observe) > 0 {
		// one get-value per term so that a failure on one does not lose the others
		for _, ob := range o.Observe {
			fmt.Fprintf(&sb, "(get-value (%s))\n", ob.T.S)
		}
	}
	return sb.String()
}

// ---- cone of influence

func (vc *VC) symbolsOf(str string) []string {
	var out []string
	seen := map[string]bool{}
	i := 0
	n := len(str)
	for i < n {
		c := str[i]
		if c == '(' || c == ')' || c == ' ' || c == '\n' {
			i++
			continue
		}
		j := i
		for j < n && str[j] != '(' && str[j] != ')' && str[j] != ' ' && str[j] != '\n' {
			j++
		}
		tok := str[i:j]
		if vc.declared[tok] && !seen[tok] {
			seen[tok] = true
			out = append(out, tok)
		}
		i = j
	}
	return out
}

func (vc *VC) prepAssertion(a *Assertion) {
	if a.symsDone {
		return
	}
	a.symsDone = true
	a.syms = vc.symbolsOf(a.S)
	if (a.Label == "def" || a.Label == "fdef") && strings.HasPrefix(a.S, "(= ") {
		rest := a.S[3:]
		if k := strings.IndexByte(rest, ' '); k > 0 && vc.declared[rest[:k]] {
			a.defOf = rest[:k]
		}
	} else if strings.HasPrefix(a.S, "(=> ") {
		rest := a.S[4:]
		if k := strings.IndexByte(rest, ' '); k > 0 && vc.declared[rest[:k]] {
			a.guard = rest[:k]
		}
	}
}

func (vc *VC) prepAll() {
	vc.prepMu.Lock()
	defer vc.prepMu.Unlock()
	for i := vc.nprep; i < len(vc.asserts); i++ {
		vc.prepAssertion(&vc.asserts[i])
	}
	vc.nprep = len(vc.asserts)
}

// relevant: assertions needed for obligation o. Definitions are kept when the defined constant is used;
// guarded assumptions (=> pc fact) are kept when their guard is used; everything else is kept.
// Dropping an assumption is always sound (it can only make a proof fail, never succeed wrongly).
func (vc *VC) dropFloat(a *Assertion, o *Obligation, mode int) bool {
	if !a.FloatDef {
		return false
	}
	switch mode {
	case 1:
		return true
	case 2:
		return a.Stage != o.Stage
	}
	return false
}

func (vc *VC) relevant(o *Obligation, abstractFloats int) ([]bool, map[string]bool) {
	n := o.NAssert
	keep := make([]bool, n)
	used := map[string]bool{}
	add := func(syms []string) bool {
		ch := false
		for _, s := range syms {
			if !used[s] {
				used[s] = true
				ch = true
			}
		}
		return ch
	}
	add(vc.symbolsOf(o.Goal.S))
	add(vc.symbolsOf(o.PC.S))
	for _, e := range o.Extra {
		add(vc.symbolsOf(e))
	}
	if vc.obsCone {
		for _, ob := range o.Observe {
			add(vc.symbolsOf(ob.T.S))
		}
	}
	vc.prepAll()
	if os.Getenv("HV_NOPRUNE") != "" {
		for i := range keep {
			keep[i] = !vc.dropFloat(&vc.asserts[i], o, abstractFloats)
		}
		for _, d := range vc.decls {
			used[d.Name] = true
		}
		return keep, used
	}
	for changed := true; changed; {
		changed = false
		for i := n - 1; i >= 0; i-- {
			if keep[i] {
				continue
			}
			a := &vc.asserts[i]
			if vc.dropFloat(a, o, abstractFloats) {
				continue
			}
			if len(a.Tags) > 0 && disjointTags(a.Tags, o.Tags) {
				continue // an "exclusive" fact (tags written with !) is only used for obligations of those properties
			}
			if a.defOf != "" {
				if !used[a.defOf] {
					continue
				}
			} else if a.Block >= 0 && o.Block >= 0 && vc.anc != nil {
				// facts established in a block that cannot reach the program point are irrelevant
				if !vc.anc[o.Block][a.Block] {
					continue
				}
			}
			keep[i] = true
			if add(a.syms) {
				changed = true
			}
		}
	}
	return keep, used
}
