package main

// Semantics of individual SSA instructions (bit-precise integers, IEEE floats).

import (
	"fmt"
	"go/constant"
	"go/token"
	"go/types"
	"math/big"
	"strings"

	"golang.org/x/tools/go/ssa"
)

type unsupported struct{ msg string }

func ufail(format string, a ...interface{}) { panic(unsupported{fmt.Sprintf(format, a...)}) }

func (x *Exec) convInt(v Term, signed bool, to int) Term {
	from := v.Sort.bvWidth()
	switch {
	case from == to:
		return v
	case from > to:
		return T(SBV(to), "((_ extract %d 0) %s)", to-1, v.S)
	case signed:
		return T(SBV(to), "((_ sign_extend %d) %s)", to-from, v.S)
	default:
		return T(SBV(to), "((_ zero_extend %d) %s)", to-from, v.S)
	}
}

// convert implements Go conversion between basic types.
func (x *Exec) convert(v Term, from, to types.Type) Term {
	fs, ts := v.Sort, x.w.sortOf(to)
	switch {
	case fs.isBV() && ts.isBV():
		return x.convInt(v, isSigned(from), ts.bvWidth())
	case fs.isBV() && ts == SF64:
		if isSigned(from) {
			return x.vc.defineFloat("i2f", T(SF64, "((_ to_fp 11 53) RNE %s)", v.S))
		}
		return x.vc.defineFloat("u2f", T(SF64, "((_ to_fp_unsigned 11 53) RNE %s)", v.S))
	case fs == SF64 && ts.isBV():
		w := ts.bvWidth()
		// amd64: cvttsd2si (64-bit); NaN/out-of-range -> 0x8000000000000000, then truncated for narrower types
		lo := "((_ to_fp 11 53) RNE (_ bv9223372036854775808 64))" // -2^63 as signed
		inRange := T(SBool, "(and (not (fp.isNaN %s)) (fp.geq %s %s) (fp.lt %s (fp.neg %s)))", v.S, v.S, lo, v.S, lo)
		conv := T(SBV(64), "((_ fp.to_sbv 64) RTZ %s)", v.S)
		r := ite(inRange, conv, bvLit(64, new(big.Int).Lsh(big.NewInt(1), 63)))
		r = x.vc.defineFloat("f2i", r)
		return x.convInt(r, true, w)
	case fs == ts:
		return v
	case fs == SStr && ts == SSlice, fs == SSlice && ts == SStr, fs.isBV() && ts == SStr:
		// string <-> []byte conversions: opaque (deterministic) function of the operand
		name := "conv_" + sortID(fs) + "_" + sortID(ts)
		x.w.declareUF(name, []Sort{fs}, ts)
		return T(ts, "(%s %s)", name, v.S)
	}
	ufail("conversion %s -> %s", from, to)
	return v
}

func (x *Exec) constTerm(c *ssa.Const) Term {
	t := c.Type()
	if c.Value == nil {
		return x.w.zeroOf(t)
	}
	s := x.w.sortOf(t)
	switch {
	case s == SBool:
		if constant.BoolVal(c.Value) {
			return tTrue
		}
		return tFalse
	case s.isBV():
		v := constant.ToInt(c.Value)
		bi, ok := new(big.Int).SetString(v.ExactString(), 10)
		if !ok {
			ufail("bad int constant %s", c)
		}
		return bvLit(s.bvWidth(), bi)
	case s == SF64:
		f, _ := constant.Float64Val(constant.ToFloat(c.Value))
		return f64Term(f)
	case s == SStr:
		return x.w.strLit(constant.StringVal(c.Value))
	}
	ufail("constant %s of sort %s", c, s)
	return Term{}
}

func (x *Exec) binop(op token.Token, a, b Term, t types.Type, yT types.Type) Term {
	s := a.Sort
	signed := isSigned(t)
	bin := func(name string) Term { return T(s, "(%s %s %s)", name, a.S, b.S) }
	cmp := func(name string) Term { return T(SBool, "(%s %s %s)", name, a.S, b.S) }
	if s == SF64 {
		switch op {
		case token.ADD:
			return x.vc.defineFloat("fadd", T(s, "(fp.add RNE %s %s)", a.S, b.S))
		case token.SUB:
			return x.vc.defineFloat("fsub", T(s, "(fp.sub RNE %s %s)", a.S, b.S))
		case token.MUL:
			return x.vc.defineFloat("fmul", T(s, "(fp.mul RNE %s %s)", a.S, b.S))
		case token.QUO:
			return x.vc.defineFloat("fdiv", T(s, "(fp.div RNE %s %s)", a.S, b.S))
		case token.EQL:
			return cmp("fp.eq")
		case token.NEQ:
			return not(cmp("fp.eq"))
		case token.LSS:
			return cmp("fp.lt")
		case token.LEQ:
			return cmp("fp.leq")
		case token.GTR:
			return cmp("fp.gt")
		case token.GEQ:
			return cmp("fp.geq")
		}
		ufail("float op %s", op)
	}
	switch op {
	case token.EQL:
		return eq(a, b)
	case token.NEQ:
		return not(eq(a, b))
	}
	if s == SStr {
		switch op {
		case token.ADD:
			x.w.declareUF("sconcat", []Sort{SStr, SStr}, SStr)
			return bin("sconcat")
		case token.LSS, token.LEQ, token.GTR, token.GEQ:
			x.w.declareUF("sless", []Sort{SStr, SStr}, SBool)
			switch op {
			case token.LSS:
				return cmp("sless")
			case token.GTR:
				return T(SBool, "(sless %s %s)", b.S, a.S)
			case token.LEQ:
				return not(T(SBool, "(sless %s %s)", b.S, a.S))
			default:
				return not(cmp("sless"))
			}
		}
		ufail("string op %s", op)
	}
	if s == SBool {
		switch op {
		case token.AND, token.LAND:
			return and(a, b)
		case token.OR, token.LOR:
			return or(a, b)
		}
	}
	if !s.isBV() {
		ufail("binop %s on sort %s", op, s)
	}
	switch op {
	case token.ADD:
		return bin("bvadd")
	case token.SUB:
		return bin("bvsub")
	case token.MUL:
		return bin("bvmul")
	case token.QUO:
		if signed {
			return bin("bvsdiv")
		}
		return bin("bvudiv")
	case token.REM:
		if signed {
			return bin("bvsrem")
		}
		return bin("bvurem")
	case token.AND:
		return bin("bvand")
	case token.OR:
		return bin("bvor")
	case token.XOR:
		return bin("bvxor")
	case token.AND_NOT:
		return T(s, "(bvand %s (bvnot %s))", a.S, b.S)
	case token.SHL, token.SHR:
		// shift count: unsigned semantic; widen/narrow to operand width with saturation
		cnt := b
		w := s.bvWidth()
		cw := cnt.Sort.bvWidth()
		if cw > w {
			// if any high bit set, shift >= width
			big := T(SBool, "(bvuge %s %s)", cnt.S, bvInt(cw, int64(w)).S)
			low := T(SBV(w), "((_ extract %d 0) %s)", w-1, cnt.S)
			cnt = ite(big, bvInt(w, int64(w)), low)
		} else if cw < w {
			cnt = T(SBV(w), "((_ zero_extend %d) %s)", w-cw, cnt.S)
		}
		if op == token.SHL {
			return T(s, "(bvshl %s %s)", a.S, cnt.S)
		}
		if signed {
			return T(s, "(bvashr %s %s)", a.S, cnt.S)
		}
		return T(s, "(bvlshr %s %s)", a.S, cnt.S)
	case token.LSS:
		if signed {
			return cmp("bvslt")
		}
		return cmp("bvult")
	case token.LEQ:
		if signed {
			return cmp("bvsle")
		}
		return cmp("bvule")
	case token.GTR:
		if signed {
			return cmp("bvsgt")
		}
		return cmp("bvugt")
	case token.GEQ:
		if signed {
			return cmp("bvsge")
		}
		return cmp("bvuge")
	}
	ufail("binop %s", op)
	return Term{}
}

// evOf reads a midi.Event ([]byte) as a ghost Ev value.
func (x *Exec) evOf(st *State, sl Term) Term {
	hn, hs := x.sliceHeap(types.Typ[types.Uint8])
	arr := sel(x.heapGet(st, hn, hs), sliceRef(sl))
	off := sliceOff(sl)
	at := func(i int64) string {
		return sel(arr, bvadd64(off, bvInt(64, i))).S
	}
	return T(SEv, "(mk_Ev %s %s %s %s)", sliceLen(sl).S, at(0), at(1), at(2))
}

// card: cardinality of a key set (uninterpreted, with the counting axioms added on demand)
func (x *Exec) card(pres Term, ks Sort) Term {
	name := "card_" + sortID(ks)
	x.w.declareUF(name, []Sort{arraySort(ks, SBool)}, SBV(64))
	if !x.cardAx[name] {
		x.cardAx[name] = true
		ps := arraySort(ks, SBool)
		ax := []string{
			// empty set has cardinality 0, and only the empty set
			fmt.Sprintf("(= (%s ((as const %s) false)) (_ bv0 64))", name, ps),
			fmt.Sprintf("(forall ((p %s)) (! (=> (= (%s p) (_ bv0 64)) (= p ((as const %s) false))) :pattern ((%s p))))", ps, name, ps, name),
			// bounded by the key space (no wrap-around in 64 bits)
			fmt.Sprintf("(forall ((p %s)) (! (bvule (%s p) (_ bv4294967296 64)) :pattern ((%s p))))", ps, name, name),
			// insert / delete
			fmt.Sprintf("(forall ((p %s) (k %s)) (! (= (%s (store p k true)) (ite (select p k) (%s p) (bvadd (%s p) (_ bv1 64)))) :pattern ((%s (store p k true)))))", ps, ks, name, name, name, name),
			fmt.Sprintf("(forall ((p %s) (k %s)) (! (= (%s (store p k false)) (ite (select p k) (bvsub (%s p) (_ bv1 64)) (%s p))) :pattern ((%s (store p k false)))))", ps, ks, name, name, name, name),
			// two distinct present keys mean cardinality >= 2
			fmt.Sprintf("(forall ((p %s) (k1 %s) (k2 %s)) (! (=> (and (select p k1) (select p k2) (not (= k1 k2))) (bvuge (%s p) (_ bv2 64))) :pattern ((%s p) (select p k1) (select p k2))))", ps, ks, ks, name, name),
			// a present key means cardinality >= 1
			fmt.Sprintf("(forall ((p %s) (k %s)) (! (=> (select p k) (bvuge (%s p) (_ bv1 64))) :pattern ((%s p) (select p k))))", ps, ks, name, name),
		}
		for _, a := range ax {
			x.vc.assume(Term{a, SBool}, "axiom card")
		}
		x.trusted["counting axioms for map cardinality ("+name+")"] = true
	}
	return T(SBV(64), "(%s %s)", name, pres.S)
}

// cnt(T,P,v) = |{k : P[k] and T[k]=v}|  (uninterpreted + counting axioms A1..A7 of DESIGN 2.3)
func (x *Exec) cnt(vals, pres, v Term, ks, vs Sort) Term {
	name := "cnt_" + sortID(ks) + "_" + sortID(vs)
	ts := arraySort(ks, vs)
	ps := arraySort(ks, SBool)
	x.w.declareUF(name, []Sort{ts, ps, vs}, SBV(64))
	wit := "wit_" + sortID(ks) + "_" + sortID(vs)
	x.w.declareUF(wit, []Sort{ts, ps, vs}, ks)
	if !x.cardAx[name] {
		x.cardAx[name] = true
		q := func(vars, body, pat string) string {
			return fmt.Sprintf("(forall (%s) (! %s :pattern (%s)))", vars, body, pat)
		}
		tp := fmt.Sprintf("(t %s) (p %s)", ts, ps)
		ax := []string{
			// A1 insert of an absent key
			q(tp+fmt.Sprintf(" (k %s) (v %s) (w %s)", ks, vs, vs),
				fmt.Sprintf("(=> (not (select p k)) (= (%s (store t k v) (store p k true) w) (bvadd (%s t p w) (ite (= v w) (_ bv1 64) (_ bv0 64)))))", name, name),
				fmt.Sprintf("(%s (store t k v) (store p k true) w)", name)),
			// A1' overwrite of a present key
			q(tp+fmt.Sprintf(" (k %s) (v %s) (w %s)", ks, vs, vs),
				fmt.Sprintf("(=> (select p k) (= (%s (store t k v) (store p k true) w) (bvadd (bvsub (%s t p w) (ite (= (select t k) w) (_ bv1 64) (_ bv0 64))) (ite (= v w) (_ bv1 64) (_ bv0 64)))))", name, name),
				fmt.Sprintf("(%s (store t k v) (store p k true) w)", name)),
			// A2 delete
			q(tp+fmt.Sprintf(" (k %s) (w %s)", ks, vs),
				fmt.Sprintf("(= (%s t (store p k false) w) (bvsub (%s t p w) (ite (and (select p k) (= (select t k) w)) (_ bv1 64) (_ bv0 64))))", name, name),
				fmt.Sprintf("(%s t (store p k false) w)", name)),
			// A3 bounds
			q(tp+fmt.Sprintf(" (w %s)", vs),
				fmt.Sprintf("(bvule (%s t p w) (_ bv65536 64))", name),
				fmt.Sprintf("(%s t p w)", name)),
			// A4 a holder exists => count >= 1
			q(tp+fmt.Sprintf(" (k %s)", ks),
				fmt.Sprintf("(=> (select p k) (bvuge (%s t p (select t k)) (_ bv1 64)))", name),
				fmt.Sprintf("(select p k) (%s t p (select t k))", name)),
			// A5 empty
			q(fmt.Sprintf("(t %s) (w %s)", ts, vs),
				fmt.Sprintf("(= (%s t ((as const %s) false) w) (_ bv0 64))", name, ps),
				fmt.Sprintf("(%s t ((as const %s) false) w)", name, ps)),
			// A6 witness
			q(tp+fmt.Sprintf(" (w %s)", vs),
				fmt.Sprintf("(=> (bvuge (%s t p w) (_ bv1 64)) (and (select p (%s t p w)) (= (select t (%s t p w)) w)))", name, wit, wit),
				fmt.Sprintf("(%s t p w)", name)),
			// A7 two distinct holders => count >= 2
			q(tp+fmt.Sprintf(" (k1 %s) (k2 %s)", ks, ks),
				fmt.Sprintf("(=> (and (select p k1) (select p k2) (not (= k1 k2)) (= (select t k1) (select t k2))) (bvuge (%s t p (select t k1)) (_ bv2 64)))", name),
				fmt.Sprintf("(select p k1) (select p k2) (%s t p (select t k1))", name)),
		}
		for _, a := range ax {
			x.vc.assume(Term{a, SBool}, "axiom cnt")
		}
		x.trusted["counting axioms A1-A7 for finite maps ("+name+")"] = true
	}
	return T(SBV(64), "(%s %s %s %s)", name, vals.S, pres.S, v.S)
}

func lastSeg(s string) string {
	if i := strings.LastIndex(s, "/"); i >= 0 {
		return s[i+1:]
	}
	return s
}
