package main

// Replay of counterexamples of methods / functions over structs ("conformance replay").
//
// For a straight-line function that calls only externs (rpReplayable) the symbolic execution is an exact image of one run.
// The solver's model therefore fixes (a) every pre-state location the run reads - recorded as access paths from the
// parameters (rpath.go) - and (b) every effect of the run: the events sent and the locations written. The replay builds
// the pre-state with reflection inside an injected in-package test (go test -overlay; nothing is written to /repo), runs
// the REAL function and compares its effects with the predicted ones. If they agree, the real code, started in the
// counterexample's state, does exactly what the verifier computed - the execution for which the solver found the clause
// false - and the violation counts as replayed. If they differ (a location was read after it had been written, strings the
// code inspects byte by byte, ...), the replay is inconclusive and the verdict stays no-failing-input-found.

import (
	"encoding/json"
	"fmt"
	"go/types"
	"math"
	"regexp"
	"sort"
	"strconv"
	"strings"

	"golang.org/x/tools/go/ssa"
)

type r2Val struct {
	Kind string `json:"kind"` // int uint bool string float nonnil
	N    int64  `json:"n,omitempty"`
	U    uint64 `json:"u,omitempty"`
	B    bool   `json:"b,omitempty"`
	S    string `json:"s,omitempty"`
	FB   uint64 `json:"fb,omitempty"`
}

type r2Seg struct {
	F string `json:"f,omitempty"`
	I *int   `json:"i,omitempty"`
	K *r2Val `json:"k,omitempty"`
}

type r2Item struct {
	Role string  `json:"role"`
	Root string  `json:"root"`
	Path []r2Seg `json:"path"`
	Val  r2Val   `json:"val"`
}

type r2Spec struct {
	Sets   []r2Item           `json:"sets"`
	Writes []r2Item           `json:"writes"`
	Sends  map[string][][]int `json:"sends"`
}

var strTokRe = regexp.MustCompile(`[^A-Za-z0-9]+`)

var r2Lits map[string]string // model token of a string -> the literal it denotes

func r2Convert(ty, text string) (r2Val, bool) {
	text = strings.TrimSpace(text)
	switch ty {
	case "bool", "nonnil":
		if text != "true" && text != "false" {
			return r2Val{}, false
		}
		k := "bool"
		if ty == "nonnil" {
			k = "nonnil"
		}
		return r2Val{Kind: k, B: text == "true"}, true
	case "string":
		if lit, ok := r2Lits[text]; ok {
			return r2Val{Kind: "string", S: lit}, true
		}
		return r2Val{Kind: "string", S: "hv" + strTokRe.ReplaceAllString(text, "")}, true
	case "float64":
		f, ok := parseFP(text)
		if !ok {
			return r2Val{}, false
		}
		return r2Val{Kind: "float", FB: math.Float64bits(f)}, true
	}
	u, ok := parseBV(text)
	if !ok {
		return r2Val{}, false
	}
	width := 64
	switch ty {
	case "int8", "uint8":
		width = 8
	case "int16", "uint16":
		width = 16
	case "int32", "uint32":
		width = 32
	}
	if strings.HasPrefix(ty, "uint") {
		return r2Val{Kind: "uint", U: u}, true
	}
	sv := int64(u)
	if width < 64 && u>>(uint(width)-1)&1 == 1 {
		sv = int64(u) - (1 << uint(width))
	}
	return r2Val{Kind: "int", N: sv}, true
}

// r2Collect turns the model's rp|... answers into the replay specification
func r2Collect(model map[string]string) (*r2Spec, string) {
	type raw struct {
		meta rpMeta
		val  string
	}
	var items []raw
	r2Lits = map[string]string{}
	for label, val := range model {
		if strings.HasPrefix(label, "strlit|") {
			r2Lits[strings.TrimSpace(val)] = label[len("strlit|"):]
		}
	}
	for label, val := range model {
		if !strings.HasPrefix(label, "rp|{") || !strings.HasSuffix(label, "|val") {
			continue
		}
		var m rpMeta
		if json.Unmarshal([]byte(label[3:len(label)-4]), &m) != nil {
			continue
		}
		items = append(items, raw{m, val})
	}
	sort.Slice(items, func(i, j int) bool { return items[i].meta.ID < items[j].meta.ID })
	spec := &r2Spec{Sends: map[string][][]int{}}
	var curSend []int
	curChan := ""
	want := 0
	for _, it := range items {
		if strings.TrimSpace(model[fmt.Sprintf("rp|%d|pc", it.meta.ID)]) != "true" {
			continue
		}
		v, ok := r2Convert(it.meta.Ty, it.val)
		if !ok {
			return nil, fmt.Sprintf("model value %q of kind %s not understood", it.val, it.meta.Ty)
		}
		var path []r2Seg
		for j, s := range it.meta.Segs {
			switch {
			case s.F != "":
				path = append(path, r2Seg{F: s.F})
			case s.I != nil:
				path = append(path, r2Seg{I: s.I})
			case s.IT:
				u, ok := parseBV(strings.TrimSpace(model[fmt.Sprintf("rp|%d|seg|%d", it.meta.ID, j)]))
				if !ok || u > 1<<20 {
					return nil, "index value missing or too large"
				}
				k := int(u)
				path = append(path, r2Seg{I: &k})
			case s.KT != "":
				kv, ok := r2Convert(s.KT, model[fmt.Sprintf("rp|%d|seg|%d", it.meta.ID, j)])
				if !ok {
					return nil, "key value missing"
				}
				path = append(path, r2Seg{K: &kv})
			}
		}
		item := r2Item{Role: it.meta.Role, Root: it.meta.Root, Path: path, Val: v}
		switch it.meta.Role {
		case "load", "present":
			spec.Sets = append(spec.Sets, item)
		case "store", "delete":
			spec.Writes = append(spec.Writes, item)
		case "send":
			// groups of four: #len, byte 0, 1, 2
			last := path[len(path)-1]
			ch := ""
			if len(path) >= 2 {
				ch = path[len(path)-2].F
			}
			if last.F == "#len" {
				curChan, curSend, want = ch, nil, int(v.N)
				if want < 0 || want > 3 {
					return nil, "predicted event is not 0..3 bytes long"
				}
				if want == 0 {
					spec.Sends[curChan] = append(spec.Sends[curChan], []int{})
				}
			} else if last.I != nil && ch == curChan && *last.I < want {
				curSend = append(curSend, int(v.U))
				if len(curSend) == want {
					spec.Sends[curChan] = append(spec.Sends[curChan], curSend)
					curSend = nil
				}
			}
		}
	}
	return spec, ""
}

const r2Harness = `
type hvVal struct {
	Kind string
	N    int64
	U    uint64
	B    bool
	S    string
	FB   uint64
}
type hvSeg struct {
	F string
	I *int
	K *hvVal
}
type hvItem struct {
	Role string
	Root string
	Path []hvSeg
	Val  hvVal
}
type hvSpecT struct {
	Sets   []hvItem
	Writes []hvItem
	Sends  map[string][][]int
}

func hvW(v reflect.Value) reflect.Value {
	if v.CanSet() || !v.CanAddr() {
		return v
	}
	return reflect.NewAt(v.Type(), unsafe.Pointer(v.UnsafeAddr())).Elem()
}

func hvScalar(t reflect.Type, val hvVal) reflect.Value {
	n := reflect.New(t).Elem()
	switch t.Kind() {
	case reflect.Int, reflect.Int8, reflect.Int16, reflect.Int32, reflect.Int64:
		if val.Kind == "uint" {
			n.SetInt(int64(val.U))
		} else {
			n.SetInt(val.N)
		}
	case reflect.Uint, reflect.Uint8, reflect.Uint16, reflect.Uint32, reflect.Uint64, reflect.Uintptr:
		if val.Kind == "int" {
			n.SetUint(uint64(val.N))
		} else {
			n.SetUint(val.U)
		}
	case reflect.Bool:
		n.SetBool(val.B)
	case reflect.String:
		n.SetString(val.S)
	case reflect.Float64:
		n.SetFloat(math.Float64frombits(val.FB))
	default:
		panic("hv: scalar of kind " + t.Kind().String())
	}
	return n
}

func hvVivify(v reflect.Value) {
	switch v.Kind() {
	case reflect.Map:
		if v.IsNil() {
			v.Set(reflect.MakeMap(v.Type()))
		}
	case reflect.Ptr:
		if v.IsNil() {
			v.Set(reflect.New(v.Type().Elem()))
		}
	case reflect.Slice:
		if v.IsNil() {
			v.Set(reflect.MakeSlice(v.Type(), 0, 0))
		}
	case reflect.Chan:
		if v.IsNil() {
			v.Set(reflect.MakeChan(reflect.ChanOf(reflect.BothDir, v.Type().Elem()), 4096))
		}
	}
}

func hvAssign(v reflect.Value, path []hvSeg, it hvItem) {
	v = hvW(v)
	if len(path) == 0 {
		switch {
		case it.Val.Kind == "nonnil":
			if it.Val.B {
				hvVivify(v)
			} else {
				v.Set(reflect.Zero(v.Type()))
			}
		case it.Role == "present":
			// handled by the caller (map level)
		default:
			v.Set(hvScalar(v.Type(), it.Val))
		}
		return
	}
	s := path[0]
	switch {
	case s.F != "":
		for v.Kind() == reflect.Ptr {
			hvVivify(v)
			v = hvW(v.Elem())
		}
		hvAssign(v.FieldByName(s.F), path[1:], it)
	case s.I != nil:
		for v.Kind() == reflect.Ptr {
			hvVivify(v)
			v = hvW(v.Elem())
		}
		if v.Kind() == reflect.Slice {
			for v.Len() <= *s.I {
				v.Set(reflect.Append(v, reflect.Zero(v.Type().Elem())))
			}
		}
		hvAssign(v.Index(*s.I), path[1:], it)
	case s.K != nil:
		hvVivify(v)
		key := hvScalar(v.Type().Key(), *s.K)
		if len(path) == 1 && it.Role == "present" {
			if !it.Val.B {
				v.SetMapIndex(key, reflect.Value{})
			} else if !v.MapIndex(key).IsValid() {
				v.SetMapIndex(key, reflect.Zero(v.Type().Elem()))
			}
			return
		}
		elem := reflect.New(v.Type().Elem()).Elem()
		if cur := v.MapIndex(key); cur.IsValid() {
			elem.Set(cur)
		}
		hvAssign(elem, path[1:], it)
		v.SetMapIndex(key, elem)
	}
}

func hvRead(v reflect.Value, path []hvSeg) (reflect.Value, bool) {
	for _, s := range path {
		for v.Kind() == reflect.Ptr {
			if v.IsNil() {
				return v, false
			}
			v = v.Elem()
		}
		switch {
		case s.F != "":
			v = v.FieldByName(s.F)
		case s.I != nil:
			if *s.I >= v.Len() {
				return v, false
			}
			v = v.Index(*s.I)
		case s.K != nil:
			if v.IsNil() {
				return v, false
			}
			v = v.MapIndex(hvScalar(v.Type().Key(), *s.K))
			if !v.IsValid() {
				return v, false
			}
		}
	}
	return v, true
}

func hvShow(v reflect.Value) string {
	switch v.Kind() {
	case reflect.Int, reflect.Int8, reflect.Int16, reflect.Int32, reflect.Int64:
		return fmt.Sprint(v.Int())
	case reflect.Uint, reflect.Uint8, reflect.Uint16, reflect.Uint32, reflect.Uint64, reflect.Uintptr:
		return fmt.Sprint(v.Uint())
	case reflect.Bool:
		return fmt.Sprint(v.Bool())
	case reflect.String:
		return v.String()
	case reflect.Float64:
		return fmt.Sprint(math.Float64bits(v.Float()))
	}
	return "?"
}

func hvWant(val hvVal, t reflect.Type) string {
	return hvShow(hvScalar(t, val))
}

// every nil map / pointer-to-struct / channel field of the object gets a value (the contracts assume a well-formed object)
func hvPrepare(obj reflect.Value) map[string]reflect.Value {
	chans := map[string]reflect.Value{}
	for obj.Kind() == reflect.Ptr {
		obj = obj.Elem()
	}
	if obj.Kind() != reflect.Struct {
		return chans
	}
	for i := 0; i < obj.NumField(); i++ {
		f := hvW(obj.Field(i))
		switch f.Kind() {
		case reflect.Map:
			hvVivify(f)
		case reflect.Chan:
			ch := reflect.MakeChan(reflect.ChanOf(reflect.BothDir, f.Type().Elem()), 4096)
			f.Set(ch)
			chans[obj.Type().Field(i).Name] = ch
		case reflect.Ptr:
			if f.Type().Elem().Kind() == reflect.Struct {
				hvVivify(f)
			}
		case reflect.Bool:
			if obj.Type().Field(i).Name == "noLogs" {
				f.SetBool(true)
			}
		}
	}
	return chans
}

func hvDrain(ch reflect.Value) [][]int {
	out := [][]int{}
	for {
		v, ok := ch.TryRecv()
		if !ok {
			return out
		}
		ev := []int{}
		if v.Kind() == reflect.Slice && v.Type().Elem().Kind() == reflect.Uint8 {
			for i := 0; i < v.Len(); i++ {
				ev = append(ev, int(v.Index(i).Uint()))
			}
		} else {
			ev = append(ev, -1)
		}
		out = append(out, ev)
	}
}
`

var r2Count int

// tryReplayMethod: conformance replay; returns true when it reached a verdict (replayed or not)
func tryReplayMethod(rf *ReplayFile, r *SolveResult, eng *Engine) bool {
	var fn *ssa.Function
	for key, c := range eng.cf.Funcs {
		if c.Name == r.Obl.Func && eng.funcs[key] != nil {
			fn = eng.funcs[key]
		}
	}
	if fn == nil || fn.Pkg == nil {
		return false
	}
	x := &Exec{eng: eng}
	if ok, why := x.rpReplayableWhy(fn); !ok {
		rf.ReplayNote = "no replay harness for this function shape (" + why + ": the model does not fix one complete run); the model is recorded"
		return false
	}
	r2Count++
	if r2Count > 8 {
		rf.ReplayNote = "replay not attempted: more than 8 violations in this run, only the first 8 are replayed"
		return false
	}
	model := fullModel(r, 30)
	if model == nil {
		rf.ReplayNote = "replay not attempted: the solver gave no model for the query that keeps all observed terms"
		return false
	}
	spec, why := r2Collect(model)
	if spec == nil {
		rf.ReplayNote = "replay not attempted: " + why
		return false
	}
	// test source
	imports := map[string]string{}
	qual := func(p *types.Package) string {
		if p == fn.Pkg.Pkg {
			return ""
		}
		if a, ok := imports[p.Path()]; ok {
			return a
		}
		a := fmt.Sprintf("hvimp%d", len(imports))
		imports[p.Path()] = a
		return a
	}
	var decl, args, roots []string
	recvName := ""
	for i, p := range fn.Params {
		vn := fmt.Sprintf("hvp%d", i)
		switch u := p.Type().Underlying().(type) {
		case *types.Pointer:
			decl = append(decl, fmt.Sprintf("\t%s := new(%s)", vn, types.TypeString(u.Elem(), qual)))
			roots = append(roots, fmt.Sprintf("%q: reflect.ValueOf(%s)", p.Name(), vn))
			if i == 0 && fn.Signature.Recv() != nil {
				recvName = vn
			}
		case *types.Basic:
			val, ok := model["param "+p.Name()]
			cv, ok2 := r2Convert(basicName(u), val)
			if !ok || !ok2 {
				rf.ReplayNote = "replay not attempted: no model value for parameter " + p.Name()
				return false
			}
			lit := ""
			switch cv.Kind {
			case "int":
				lit = fmt.Sprint(cv.N)
			case "uint":
				lit = fmt.Sprint(cv.U)
			case "bool":
				lit = fmt.Sprint(cv.B)
			case "string":
				lit = strconv.Quote(cv.S)
			case "float":
				lit = fmt.Sprintf("math.Float64frombits(0x%x)", cv.FB)
			}
			decl = append(decl, fmt.Sprintf("\tvar %s %s = %s(%s)", vn, types.TypeString(p.Type(), qual), types.TypeString(p.Type(), qual), lit))
		}
		if !(i == 0 && fn.Signature.Recv() != nil) {
			args = append(args, vn)
		}
	}
	call := ""
	if fn.Signature.Recv() != nil {
		call = fmt.Sprintf("%s.%s(%s)", recvName, fn.Name(), strings.Join(args, ", "))
	} else {
		call = fmt.Sprintf("%s(%s)", fn.Name(), strings.Join(args, ", "))
	}
	// results of basic type are compared with the model's prediction as well
	nres := fn.Signature.Results().Len()
	var wantRes []string
	if nres > 0 {
		var names []string
		for i := 0; i < nres; i++ {
			names = append(names, fmt.Sprintf("hvr%d", i))
		}
		call = strings.Join(names, ", ") + " := " + call + "\n\t\tobs[\"results\"] = []string{"
		for i := 0; i < nres; i++ {
			rt := fn.Signature.Results().At(i).Type()
			if bn := basicName(rt); bn != "" && bn != "string" {
				call += fmt.Sprintf("hvShow(reflect.ValueOf(hvr%d)), ", i)
				want := "?"
				if cv, ok := r2Convert(bn, model[fmt.Sprintf("result %d", i)]); ok {
					switch cv.Kind {
					case "int":
						want = fmt.Sprint(cv.N)
					case "uint":
						want = fmt.Sprint(cv.U)
					case "bool":
						want = fmt.Sprint(cv.B)
					case "float":
						want = fmt.Sprint(cv.FB)
					}
				}
				wantRes = append(wantRes, want)
			} else {
				call += fmt.Sprintf("func() string { _ = hvr%d; return \"?\" }(), ", i)
				wantRes = append(wantRes, "?")
			}
		}
		call += "}"
	}
	specJSON, _ := json.Marshal(spec)
	if strings.Contains(string(specJSON), "`") {
		return false
	}
	var imp strings.Builder
	var paths []string
	for p := range imports {
		paths = append(paths, p)
	}
	sort.Strings(paths)
	for _, p := range paths {
		fmt.Fprintf(&imp, "\t%s %q\n", imports[p], p)
	}
	src := fmt.Sprintf(`package %s

import (
	"encoding/json"
	"fmt"
	"math"
	"reflect"
	"testing"
	"unsafe"
%s)

var _ = math.Pi
var _ unsafe.Pointer
%s
const hvSpecJSON = `+"`%s`"+`

func TestZZHvReplay(t *testing.T) {
	var spec hvSpecT
	if err := json.Unmarshal([]byte(hvSpecJSON), &spec); err != nil {
		t.Fatal(err)
	}
%s
	roots := map[string]reflect.Value{%s}
	chans := map[string]reflect.Value{}
	first := true
	for _, r := range []string{%s} {
		c := hvPrepare(roots[r])
		if first {
			chans = c
			first = false
		}
	}
	obs := map[string]interface{}{}
	func() {
		defer func() {
			if r := recover(); r != nil {
				obs["panic"] = fmt.Sprint(r)
			}
		}()
		for _, it := range spec.Sets {
			if root, ok := roots[it.Root]; ok {
				hvAssign(root, it.Path, it)
			}
		}
		obs["built"] = true
		%s
		obs["returned"] = true
	}()
	sends := map[string][][]int{}
	for name, ch := range chans {
		sends[name] = hvDrain(ch)
	}
	obs["sends"] = sends
	sendsAgree := true
	names := map[string]bool{}
	for n := range spec.Sends {
		names[n] = true
	}
	for n := range sends {
		names[n] = true
	}
	for n := range names {
		a, b := spec.Sends[n], sends[n]
		if !(len(a) == 0 && len(b) == 0) && fmt.Sprint(a) != fmt.Sprint(b) {
			sendsAgree = false
		}
	}
	obs["sends_agree"] = sendsAgree
	var wr []string
	okAll := true
	func() {
		defer func() {
			if r := recover(); r != nil {
				obs["panic-compare"] = fmt.Sprint(r)
				okAll = false
			}
		}()
		last := map[string]int{}
		key := func(it hvItem) string { b, _ := json.Marshal([]interface{}{it.Root, it.Path}); return string(b) }
		for i, it := range spec.Writes {
			last[key(it)] = i
		}
		for i, it := range spec.Writes {
			if last[key(it)] != i {
				continue
			}
			root, ok := roots[it.Root]
			if !ok {
				continue
			}
			got, present := hvRead(root, it.Path)
			switch {
			case it.Role == "delete":
				if present {
					okAll = false
					wr = append(wr, fmt.Sprintf("%%s: predicted deleted, still present", key(it)))
				}
			case !present:
				okAll = false
				wr = append(wr, fmt.Sprintf("%%s: predicted written, absent", key(it)))
			default:
				want := hvWant(it.Val, got.Type())
				if hvShow(got) != want {
					okAll = false
					wr = append(wr, fmt.Sprintf("%%s: predicted %%s, real %%s", key(it), want, hvShow(got)))
				}
			}
		}
	}()
	obs["writes_agree"] = okAll
	obs["write_diffs"] = wr
	b, _ := json.Marshal(obs)
	fmt.Println("HV-REPLAY " + string(b))
}
`, fn.Pkg.Pkg.Name(), imp.String(), r2Harness, string(specJSON), strings.Join(decl, "\n"), strings.Join(roots, ", "), quoteList(fn), call)
	rf.ReplayTest = src
	rf.ReplayPkg = strings.TrimPrefix(fn.Pkg.Pkg.Path(), modPath+"/")
	out, _ := runReplaySrc(rf.ReplayPkg, src)
	rf.ReplayOut = truncate(out, 6000)
	var obs struct {
		Panic       string             `json:"panic"`
		Built       bool               `json:"built"`
		Returned    bool               `json:"returned"`
		Sends       map[string][][]int `json:"sends"`
		WritesAgree bool               `json:"writes_agree"`
		Results     []string           `json:"results"`
		WriteDiffs  []string           `json:"write_diffs"`
	}
	found := false
	for _, ln := range strings.Split(out, "\n") {
		if strings.HasPrefix(ln, "HV-REPLAY ") {
			if json.Unmarshal([]byte(ln[len("HV-REPLAY "):]), &obs) == nil {
				found = true
			}
		}
	}
	if !found {
		rf.ReplayNote = "replay inconclusive: the injected test produced no result (it may not have compiled); output recorded"
		return true
	}
	if obs.Panic != "" {
		rf.ReplayNote = "replay inconclusive: the run in the model's state panicked (" + obs.Panic + "); the harness may have built an incomplete state"
		return true
	}
	// compare sends
	sendsAgree := true
	var diffs []string
	names := map[string]bool{}
	for n := range spec.Sends {
		names[n] = true
	}
	for n := range obs.Sends {
		names[n] = true
	}
	for n := range names {
		a, b := spec.Sends[n], obs.Sends[n]
		if fmt.Sprint(a) != fmt.Sprint(b) && !(len(a) == 0 && len(b) == 0) {
			sendsAgree = false
			diffs = append(diffs, fmt.Sprintf("channel %s: predicted %v, real %v", n, a, b))
		}
	}
	for i, w := range wantRes {
		if w != "?" && i < len(obs.Results) && obs.Results[i] != w {
			sendsAgree = false
			diffs = append(diffs, fmt.Sprintf("result %d: predicted %s, real %s", i, w, obs.Results[i]))
		}
	}
	if sendsAgree && obs.WritesAgree {
		rf.Replayed = true
		rf.ReplayNote = fmt.Sprintf("replayed: the real %s, started in the counterexample's state, sends %v and performs the %d predicted writes - exactly the run for which the solver found the clause false", fn.Name(), obs.Sends, len(spec.Writes))
	} else {
		rf.ReplayNote = "replay inconclusive: the real run differs from the model's prediction (" + strings.Join(append(diffs, obs.WriteDiffs...), "; ") + ")"
	}
	return true
}

func quoteList(fn *ssa.Function) string {
	var out []string
	// the receiver (first) decides which channels are drained
	for _, p := range fn.Params {
		if _, ok := p.Type().Underlying().(*types.Pointer); ok {
			out = append(out, strconv.Quote(p.Name()))
		}
	}
	return strings.Join(out, ", ")
}
