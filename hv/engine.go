package main

// Engine: loading /repo, contract lookup, per-function VC generation.

import (
	"encoding/json"
	"fmt"
	"go/ast"
	"go/constant"
	"go/types"
	"os"
	"path/filepath"
	"sort"
	"strings"

	"golang.org/x/tools/go/packages"
	"golang.org/x/tools/go/ssa"
	"golang.org/x/tools/go/ssa/ssautil"
)

var repoRoot = func() string {
	if v := os.Getenv("HV_REPO"); v != "" {
		return v
	}
	return "/repo"
}()

const modPath = "github.com/gethiox/HIDI"

type Engine struct {
	prog          *ssa.Program
	pkgs          []*packages.Package
	allPkgs       map[string]*packages.Package
	ssaPkg        map[string]*ssa.Package
	cf            *ContractFile
	predPkg       map[string]*types.Package
	funcs         map[string]*ssa.Function // contract key -> function
	byName        map[string][]*types.Package
	globals       map[*types.Var]*ssa.Global
	notes         []string
	pinnedLocals  map[string][]string // function key -> locals in declaration order on the tree the contracts were written for
	contractFiles []string
}

var contractPkgs = []string{
	"internal/pkg/midi",
	"internal/pkg/midi/device",
	"internal/pkg/midi/device/config",
	"internal/pkg/input",
	"cmd/hidi",
}

// cmd/hidi links ALSA through cgo (headers absent here). config.go is loaded verbatim; the other three files are
// replaced by this stub holding only the package-level identifiers config.go refers to (nothing under test lives there).
const cmdHidiStub = `package main

import (
	"time"

	"github.com/gethiox/HIDI/internal/pkg/input"
	"github.com/gethiox/HIDI/internal/pkg/logger"
)

var log = logger.GetLogger()

func collectDevices(d time.Duration) []input.Device { return nil }

func main() {}
`

func loadEngine() (*Engine, error) {
	cfg := &packages.Config{Mode: packages.LoadAllSyntax, Dir: repoRoot, Env: append(os.Environ(), "GOFLAGS=-mod=mod", "GOPROXY=off", "GOSUMDB=off", "GOTOOLCHAIN=local"),
		Overlay: map[string][]byte{
			filepath.Join(repoRoot, "cmd/hidi/main.go"):    []byte(cmdHidiStub),
			filepath.Join(repoRoot, "cmd/hidi/manager.go"): []byte("package main\n"),
			filepath.Join(repoRoot, "cmd/hidi/cli.go"):     []byte("package main\n"),
		}}
	var patterns []string
	for _, p := range contractPkgs {
		patterns = append(patterns, "./"+p)
	}
	pkgs, err := packages.Load(cfg, patterns...)
	if err != nil {
		return nil, err
	}
	for _, p := range pkgs {
		if len(p.Errors) > 0 {
			return nil, fmt.Errorf("package %s does not type-check: %v", p.PkgPath, p.Errors[0])
		}
	}
	prog, _ := ssautil.AllPackages(pkgs, ssa.NaiveForm)
	prog.Build()
	e := &Engine{prog: prog, pkgs: pkgs, allPkgs: map[string]*packages.Package{}, ssaPkg: map[string]*ssa.Package{}, cf: newContractFile(),
		predPkg: map[string]*types.Package{}, funcs: map[string]*ssa.Function{}, byName: map[string][]*types.Package{}, globals: map[*types.Var]*ssa.Global{}}
	packages.Visit(pkgs, nil, func(p *packages.Package) {
		e.allPkgs[p.PkgPath] = p
		if p.Types != nil {
			e.byName[p.Types.Name()] = append(e.byName[p.Types.Name()], p.Types)
		}
	})
	for _, sp := range prog.AllPackages() {
		e.ssaPkg[sp.Pkg.Path()] = sp
		for _, m := range sp.Members {
			if g, ok := m.(*ssa.Global); ok {
				if v, ok := g.Object().(*types.Var); ok {
					e.globals[v] = g
				}
			}
		}
	}
	// contracts: the /repo copy (hook file) must equal the mirror in /verif/contracts
	for _, rel := range contractPkgs {
		repoFile := filepath.Join(repoRoot, rel, "hv_contracts_verif.go")
		mirror := filepath.Join(verifRoot(), "contracts", strings.ReplaceAll(rel, "/", "_")+".hvc.go")
		rb, rerr := os.ReadFile(repoFile)
		mb, merr := os.ReadFile(mirror)
		var use string
		switch {
		case rerr == nil && merr == nil && os.Getenv("HV_DEV") != "":
			use = mirror // development: work from the mirror, sync before committing
		case rerr == nil && merr == nil:
			if string(rb) != string(mb) {
				return nil, fmt.Errorf("contract file %s differs from its mirror %s", repoFile, mirror)
			}
			use = repoFile
		case rerr == nil:
			use = repoFile
		case merr == nil:
			use = mirror
			e.notes = append(e.notes, "contract file missing in /repo, using mirror: "+mirror)
		default:
			continue
		}
		pkgPath := modPath + "/" + rel
		before := map[string]bool{}
		for k := range e.cf.Preds {
			before[k] = true
		}
		if err := parseContractFile(use, pkgPath, e.cf); err != nil {
			return nil, err
		}
		e.contractFiles = append(e.contractFiles, use)
		for k := range e.cf.Preds {
			if !before[k] {
				e.predPkg[k] = e.allPkgs[pkgPath].Types
			}
		}
	}
	// shared externs
	ext := filepath.Join(verifRoot(), "contracts", "extern.hvc")
	if _, err := os.Stat(ext); err == nil {
		if err := parseContractFile(ext, "", e.cf); err != nil {
			return nil, err
		}
		e.contractFiles = append(e.contractFiles, ext)
	}
	if data, err := os.ReadFile(filepath.Join(verifRoot(), "contracts", "locals.json")); err == nil {
		json.Unmarshal(data, &e.pinnedLocals)
	}
	// implicit lock-context preconditions
	for key, srcs := range e.cf.LockCtx {
		fc := e.cf.Funcs[key]
		if fc == nil {
			return nil, fmt.Errorf("lockctx names %s, which has no contract", key)
		}
		for _, src := range srcs {
			c, err := mkClause("requires", src, "lockctx", 0)
			if err != nil {
				return nil, err
			}
			c.Name = fmt.Sprintf("%s.lockctx%d", fc.Name, len(fc.Requires)+1)
			fc.Requires = append(fc.Requires, c)
		}
	}
	// tree-walk callbacks: establishment and stability of the per-entry postcondition
	for _, key := range e.cf.FuncOrder {
		fc := e.cf.Funcs[key]
		if fc.Walkpost == nil {
			continue
		}
		wp := fc.Walkpost
		pd := e.cf.Preds[wp.Pred]
		if pd == nil || len(pd.Params) != 2 {
			return nil, fmt.Errorf("walkpost of %s: %s is not a predicate with two parameters", fc.Name, wp.Pred)
		}
		srcs := []string{
			fmt.Sprintf("%s result == nil ==> %s(%s, %s)", wp.Tags, wp.Pred, wp.Args[0], wp.Args[1]),
			fmt.Sprintf("%s forall q__ %s, d__ %s :: q__ != %s && old(%s(q__, d__)) ==> %s(q__, d__)", wp.Tags, pd.Params[0].Type, pd.Params[1].Type, wp.Args[0], wp.Pred, wp.Pred),
		}
		for i, src := range srcs {
			c, err := mkClause("ensures", src, "walkpost", fc.Line)
			if err != nil {
				return nil, err
			}
			c.Name = fmt.Sprintf("%s.walkpost.%s", fc.Name, []string{"established", "stable"}[i])
			fc.Ensures = append(fc.Ensures, c)
		}
	}
	// index functions
	for fn := range ssautil.AllFunctions(prog) {
		if fn.Pkg == nil {
			continue
		}
		key := fn.Pkg.Pkg.Path() + "#" + fn.RelString(fn.Pkg.Pkg)
		if _, ok := e.cf.Funcs[key]; ok {
			e.funcs[key] = fn
		}
	}
	return e, nil
}

func outRoot() string {
	if v := os.Getenv("HV_OUT"); v != "" {
		return v
	}
	return verifRoot()
}

func verifRoot() string {
	if v := os.Getenv("HV_ROOT"); v != "" {
		return v
	}
	return "/verif"
}

func (e *Engine) pkgByName(name string, from *types.Package) *types.Package {
	if from != nil {
		for _, imp := range from.Imports() {
			if imp.Name() == name {
				return imp
			}
		}
		if from.Name() == name {
			return from
		}
	}
	cands := e.byName[name]
	for _, c := range cands {
		if strings.HasPrefix(c.Path(), modPath) {
			return c
		}
	}
	if len(cands) > 0 {
		return cands[0]
	}
	return nil
}

func (e *Engine) ghostDecl(name string) *GhostDecl {
	for i := range e.cf.Ghosts {
		if e.cf.Ghosts[i].Name == name {
			return &e.cf.Ghosts[i]
		}
	}
	return nil
}

func (e *Engine) pred(name string) *PredDecl { return e.cf.Preds[name] }

func (e *Engine) globalFor(v *types.Var) *ssa.Global { return e.globals[v] }

func (e *Engine) contractFor(fn *ssa.Function) *FuncContract {
	fn = e.unwrap(fn)
	if fn.Pkg == nil {
		return nil
	}
	return e.cf.Funcs[fn.Pkg.Pkg.Path()+"#"+fn.RelString(fn.Pkg.Pkg)]
}

// unwrap maps synthetic thunks/wrappers/bound-method closures to the declared method.
func (e *Engine) unwrap(fn *ssa.Function) *ssa.Function {
	if fn.Synthetic == "" || len(fn.Blocks) == 0 {
		return fn
	}
	var target *ssa.Function
	n := 0
	for _, b := range fn.Blocks {
		for _, in := range b.Instrs {
			if c, ok := in.(*ssa.Call); ok {
				n++
				target = c.Call.StaticCallee()
			}
		}
	}
	if n == 1 && target != nil {
		return target
	}
	return fn
}

func (e *Engine) canonFn(fn *ssa.Function) string {
	fn = e.unwrap(fn)
	if fn.Pkg != nil {
		return fn.Pkg.Pkg.Path() + "#" + fn.RelString(fn.Pkg.Pkg)
	}
	return fn.String()
}

func (e *Engine) externFor(name string) *ExternDecl {
	if ex, ok := e.cf.Externs[name]; ok {
		return ex
	}
	// wildcard: longest prefix ending in '*'
	best := ""
	for k := range e.cf.Externs {
		if strings.HasSuffix(k, "*") && strings.HasPrefix(name, k[:len(k)-1]) && len(k) > len(best) {
			best = k
		}
	}
	if best != "" {
		return e.cf.Externs[best]
	}
	return nil
}

// globalInit: package-level tables given by constant composite literals are known constants.
func (e *Engine) globalInit(x *Exec, g *ssa.Global, t Term) {
	obj, ok := g.Object().(*types.Var)
	if !ok {
		return
	}
	mt, isMap := obj.Type().Underlying().(*types.Map)
	if !isMap {
		return
	}
	pkg := e.allPkgs[g.Pkg.Pkg.Path()]
	if pkg == nil {
		return
	}
	// find the initializer
	var lit *ast.CompositeLit
	for _, f := range pkg.Syntax {
		for _, d := range f.Decls {
			gd, ok := d.(*ast.GenDecl)
			if !ok {
				continue
			}
			for _, sp := range gd.Specs {
				vs, ok := sp.(*ast.ValueSpec)
				if !ok {
					continue
				}
				for i, n := range vs.Names {
					if pkg.TypesInfo.Defs[n] == obj && i < len(vs.Values) {
						if cl, ok := vs.Values[i].(*ast.CompositeLit); ok {
							lit = cl
						}
					}
				}
			}
		}
	}
	if lit == nil || len(lit.Elts) > 64 {
		return // large tables (evdev name tables): contents not needed, left unconstrained
	}
	if !e.globalNeverWritten(g) {
		e.notes = append(e.notes, "global "+g.Name()+" is written outside init: contents not assumed")
		return
	}
	mv, mp, mvS, mpS, ks, vs := x.mapHeaps(mt)
	pres := constArray(arraySort(ks, SBool), tFalse)
	vals := x.zeroArray(arraySort(ks, vs), x.w.zeroOf(mt.Elem()))
	env := &Env{x: x, cur: x.entry, old: x.entry, vars: map[string]SVal{}, pkg: pkg.Types}
	for _, el := range lit.Elts {
		kv, ok := el.(*ast.KeyValueExpr)
		if !ok {
			return
		}
		ktv, ok1 := pkg.TypesInfo.Types[kv.Key]
		vtv, ok2 := pkg.TypesInfo.Types[kv.Value]
		if !ok1 || !ok2 || ktv.Value == nil || vtv.Value == nil {
			return // non-constant entry: leave the table unconstrained
		}
		k := env.coerce(env.constVal(ktv.Value, mt.Key()), goT(mt.Key()))
		v := env.coerce(env.constVal(vtv.Value, mt.Elem()), goT(mt.Elem()))
		pres = sto(pres, k.T, tTrue)
		vals = sto(vals, k.T, v.T)
	}
	x.vc.assume(not(eq(t, tNil)), "global table non-nil")
	x.vc.assume(eq(sel(x.heapInit(mp, mpS), t), pres), "contents of package-level table "+g.Name())
	x.vc.assume(eq(sel(x.heapInit(mv, mvS), t), vals), "contents of package-level table "+g.Name())
	x.trusted["package-level table "+g.Pkg.Pkg.Name()+"."+g.Name()+" equals its initialiser (global-write scan: never written after init)"] = true
}

var _ = constant.MakeBool

func (e *Engine) globalNeverWritten(g *ssa.Global) bool {
	for fn := range ssautil.AllFunctions(e.prog) {
		if fn.Pkg == nil || !strings.HasPrefix(fn.Pkg.Pkg.Path(), modPath) {
			continue
		}
		if fn.Name() == "init" || strings.HasPrefix(fn.Name(), "init#") {
			continue
		}
		for _, b := range fn.Blocks {
			for _, in := range b.Instrs {
				switch i := in.(type) {
				case *ssa.Store:
					if i.Addr == g {
						return false
					}
				case *ssa.MapUpdate:
					if u, ok := i.Map.(*ssa.UnOp); ok && u.X == g {
						return false
					}
				case *ssa.Call:
					if b, ok := i.Call.Value.(*ssa.Builtin); ok && b.Name() == "delete" {
						if u, ok := i.Call.Args[0].(*ssa.UnOp); ok && u.X == g {
							return false
						}
					}
				}
			}
		}
	}
	return true
}

// ---- per-function VC generation

type FuncResult struct {
	Key      string
	Name     string
	VC       *VC
	Err      string // UNDECIDED reason
	Trusted  []string
	Externs  []string
	Dropped  []string
	SrcFile  string
	SrcStart int
	SrcEnd   int
	SrcHash  string
	NInstr   int
}

func (e *Engine) genVC(key string) (res *FuncResult) {
	fc := e.cf.Funcs[key]
	fn := e.funcs[key]
	res = &FuncResult{Key: key}
	if fc != nil {
		res.Name = fc.Name
	}
	if fn == nil {
		res.Err = "site-not-found: function " + key + " is not in the current tree"
		return
	}
	w := newWorld()
	vc := newVC(w, fc.Name)
	curDefs = map[string]string{}
	x := &Exec{eng: e, w: w, vc: vc, fn: fn, fc: fc, pkg: fn.Pkg.Pkg,
		vals: map[ssa.Value]Term{}, tuples: map[ssa.Value][]Term{}, iptr: map[string]Addr{},
		heapSorts: map[string]Sort{}, nilAxiom: map[string]bool{}, cardAx: map[string]bool{}, trusted: map[string]bool{}, assumedExterns: map[string]bool{}, dropped: map[string]bool{},
		exitSt: map[*ssa.BasicBlock]*State{}, exitPC: map[*ssa.BasicBlock]Term{}, edgeCond: map[[2]*ssa.BasicBlock]Term{},
		forced: map[*ssa.BasicBlock]*edgeState{}, closures: map[string]*ssa.MakeClosure{}, slInv: map[string]bool{}, allSorts: map[string]Sort{}, boxOf: map[string]boxedVal{}, freshRefs: map[string]bool{}}
	res.VC = vc
	p0 := e.prog.Fset.Position(fn.Pos())
	res.SrcFile = shortPath(p0.Filename)
	if syn := fn.Syntax(); syn != nil {
		res.SrcStart = e.prog.Fset.Position(syn.Pos()).Line
		res.SrcEnd = e.prog.Fset.Position(syn.End()).Line
		if data, err := os.ReadFile(p0.Filename); err == nil {
			so, eo := e.prog.Fset.Position(syn.Pos()).Offset, e.prog.Fset.Position(syn.End()).Offset
			if so >= 0 && eo <= len(data) {
				res.SrcHash = shortHash(string(data[so:eo]))
			}
		}
	}
	for _, b := range fn.Blocks {
		res.NInstr += len(b.Instrs)
	}
	defer func() {
		if r := recover(); r != nil {
			switch v := r.(type) {
			case unsupported:
				res.Err = "outside-subset: " + v.msg
			case specError:
				res.Err = "contract-error: " + v.msg
			default:
				// a construct the executor does not handle must never look like a pass or a violation
				res.Err = fmt.Sprintf("outside-subset: internal error of the VC generator: %v", r)
			}
		}
		for k := range x.trusted {
			res.Trusted = append(res.Trusted, k)
		}
		for k := range x.assumedExterns {
			res.Externs = append(res.Externs, k)
		}
		for k := range x.dropped {
			res.Dropped = append(res.Dropped, k)
		}
		sort.Strings(res.Trusted)
		sort.Strings(res.Externs)
		sort.Strings(res.Dropped)
	}()
	if fc.Trusted {
		res.Trusted = append(res.Trusted, "contract of "+fc.Name+" is assumed (body not verified)")
		return
	}
	x.verify()
	return
}

// lemma VCs: closed formulas over ghost/spec vocabulary
func (e *Engine) genLemmaVC(l *Lemma, pkg *types.Package) (res *FuncResult) {
	res = &FuncResult{Key: "lemma#" + l.Name, Name: "lemma " + l.Name}
	w := newWorld()
	vc := newVC(w, "lemma "+l.Name)
	x := &Exec{eng: e, w: w, vc: vc, pkg: pkg,
		vals: map[ssa.Value]Term{}, tuples: map[ssa.Value][]Term{}, iptr: map[string]Addr{},
		heapSorts: map[string]Sort{}, nilAxiom: map[string]bool{}, cardAx: map[string]bool{}, trusted: map[string]bool{}, assumedExterns: map[string]bool{}, dropped: map[string]bool{},
		closures: map[string]*ssa.MakeClosure{}, slInv: map[string]bool{}, allSorts: map[string]Sort{}, boxOf: map[string]boxedVal{}, freshRefs: map[string]bool{}}
	x.entry = newState()
	x.params = map[string]SVal{}
	x.lets = map[string]SVal{}
	res.VC = vc
	defer func() {
		if r := recover(); r != nil {
			switch v := r.(type) {
			case unsupported:
				res.Err = "outside-subset: " + v.msg
			case specError:
				res.Err = "contract-error: lemma " + l.Name + ": " + v.msg
			default:
				panic(r)
			}
		}
		for k := range x.trusted {
			res.Trusted = append(res.Trusted, k)
		}
		sort.Strings(res.Trusted)
	}()
	env := &Env{x: x, cur: x.entry, old: x.entry, vars: map[string]SVal{}, pkg: pkg}
	goal := env.evalBool(l.E)
	if l.Canary {
		vc.oblige(&Obligation{Name: "canary." + l.Name, Kind: "cover", Tags: l.Tags, Goal: tTrue, PC: tTrue, Src: "must not be provable: " + l.Src, Cover: true, Extra: []string{not(goal).S}})
		return
	}
	vc.oblige(&Obligation{Name: "lemma." + l.Name, Kind: "lemma", Tags: l.Tags, Goal: goal, PC: tTrue, Src: l.Src})
	return
}
