package main

import (
	"os"

	"golang.org/x/tools/go/packages"
	"golang.org/x/tools/go/ssa"
	"golang.org/x/tools/go/ssa/ssautil"
)

func main() {
	cfg := &packages.Config{Mode: packages.LoadAllSyntax, Dir: "/repo"}
	pkgs, err := packages.Load(cfg, os.Args[1])
	if err != nil {
		panic(err)
	}
	prog, _ := ssautil.AllPackages(pkgs, ssa.NaiveForm)
	prog.Build()
	for fn := range ssautil.AllFunctions(prog) {
		for _, name := range os.Args[2:] {
			if fn.String() == name {
				fn.WriteTo(os.Stdout)
			}
		}
	}
}
