package main

// Discharging obligations: race z3 4.8.12, z3-new 5.1.0 and cvc5 1.0 per obligation.

import (
	"bytes"
	"context"
	"fmt"
	"os"
	"os/exec"
	"path/filepath"
	"strings"
	"sync"
	"time"
)

type SolveResult struct {
	Obl      *Obligation
	Status   string // discharged | failed-sat | failed-unknown | cover-ok | cover-vacuous | cover-unknown
	Solver   string
	TimeS    float64
	Output   string            // raw output of the deciding (or last) solver
	Model    map[string]string // observation label -> value text
	Agree    []string          // solvers that answered unsat (thorough)
	SMTBytes int
	AllOut   map[string]string
	VC       *VC
	Mode     int // float abstraction mode of the deciding query
}

type solverSpec struct {
	name string
	args func(file string, timeoutS int, seed int) []string
}

var solvers = []solverSpec{
	{"z3-new", func(f string, t, seed int) []string {
		return []string{"z3-new", fmt.Sprintf("-T:%d", t), fmt.Sprintf("smt.random_seed=%d", seed), fmt.Sprintf("sat.random_seed=%d", seed), f}
	}},
	{"z3", func(f string, t, seed int) []string {
		return []string{"z3", fmt.Sprintf("-T:%d", t), fmt.Sprintf("smt.random_seed=%d", seed), fmt.Sprintf("sat.random_seed=%d", seed), f}
	}},
	{"cvc5", func(f string, t, seed int) []string {
		return []string{"cvc5", fmt.Sprintf("--tlimit=%d", t*1000), fmt.Sprintf("--seed=%d", seed), "--produce-models", f}
	}},
}

const maxSMTBytes = 4 << 20

func firstLine(s string) string {
	s = strings.TrimSpace(s)
	if i := strings.IndexByte(s, '\n'); i >= 0 {
		return strings.TrimSpace(s[:i])
	}
	return s
}

type solverAnswer struct {
	solver string
	ans    string // unsat | sat | unknown | timeout | error
	out    string
	t      float64
}

func runSolver(ctx context.Context, sp solverSpec, file string, timeoutS, seed int) solverAnswer {
	start := time.Now()
	args := sp.args(file, timeoutS, seed)
	cctx, cancel := context.WithTimeout(ctx, time.Duration(timeoutS+5)*time.Second)
	defer cancel()
	cmd := exec.CommandContext(cctx, args[0], args[1:]...)
	var out bytes.Buffer
	cmd.Stdout = &out
	cmd.Stderr = &out
	_ = cmd.Run()
	el := time.Since(start).Seconds()
	o := out.String()
	fl := firstLine(o)
	ans := "error"
	switch {
	case fl == "unsat":
		ans = "unsat"
	case fl == "sat":
		ans = "sat"
	case fl == "unknown":
		ans = "unknown"
	case fl == "timeout" || strings.Contains(fl, "interrupted") || cctx.Err() != nil:
		ans = "timeout"
	case fl == "":
		ans = "error"
	}
	return solverAnswer{sp.name, ans, o, el}
}

func solveObligation(vc *VC, o *Obligation, dir string, idx int, timeoutS, seed int, needAgree int, only string) *SolveResult {
	if !o.Cover && vc.hasFloatDefs(o) {
		// pass 1: float arithmetic results left unconstrained (an over-approximation: a proof stays a proof)
		to := timeoutS
		if to > 20 {
			to = 20
		}
		r := solveOnce(vc, o, dir, idx, to, seed, needAgree, only, 1)
		if r.Status == "discharged" {
			r.Solver += "(floats-abstracted)"
			return r
		}
		// pass 2: only the float operations since the previous cut point are exact
		t2 := timeoutS
		if o.Kind != "cut" && o.Kind != "send-assert" && t2 > 60 {
			t2 = 60 // postconditions are designed to follow from the cut facts; they do not get the long float budget
		}
		r2 := solveOnce(vc, o, dir, idx, t2, seed, needAgree, only, 2)
		if r2.Status == "discharged" {
			r2.Solver += "(stage-floats)"
			return r2
		}
		if os.Getenv("VERIF_TIER") != "thorough" && o.Kind != "cut" && o.Kind != "send-assert" {
			if r.Status == "failed-sat" && r2.Status != "failed-sat" {
				return r2
			}
			return r2
		}
	}
	return solveOnce(vc, o, dir, idx, timeoutS, seed, needAgree, only, 0)
}

func solveOnce(vc *VC, o *Obligation, dir string, idx int, timeoutS, seed int, needAgree int, only string, abstractFloats int) *SolveResult {
	smt := vc.smtForOpt(o, true, abstractFloats)
	res := &SolveResult{Obl: o, SMTBytes: len(smt), AllOut: map[string]string{}, VC: vc, Mode: abstractFloats}
	if len(smt) > maxSMTBytes {
		res.Status = "failed-unknown"
		res.Output = fmt.Sprintf("VC size %d exceeds cap %d", len(smt), maxSMTBytes)
		return res
	}
	file := filepath.Join(dir, fmt.Sprintf("o%05d.smt2", idx))
	if err := os.WriteFile(file, []byte(smt), 0o644); err != nil {
		res.Status = "failed-unknown"
		res.Output = err.Error()
		return res
	}
	defer os.Remove(file)
	ctx, cancel := context.WithCancel(context.Background())
	defer cancel()
	// stage 1: one fast solver alone with a short limit (most obligations are decided in well under a second)
	if only == "" && needAgree <= 1 {
		quickT := 3
		if timeoutS < quickT {
			quickT = timeoutS
		}
		a := runSolver(ctx, solvers[0], file, quickT, seed)
		res.AllOut[a.solver] = a.ans
		if a.ans == "unsat" {
			res.Solver, res.Output, res.TimeS = a.solver, a.out, a.t
			if o.Cover {
				res.Status = "cover-vacuous"
			} else {
				res.Status = "discharged"
			}
			res.Agree = []string{a.solver}
			return res
		}
		if a.ans == "sat" {
			res.Solver, res.Output, res.TimeS = a.solver, a.out, a.t
			res.Model = parseModel(o, a.out)
			if o.Cover {
				res.Status = "cover-ok"
			} else {
				res.Status = "failed-sat"
			}
			return res
		}
	}
	// stage 2: a portfolio - the three solvers plus z3-new with further random seeds. Quantified obligations are sensitive to
	// the seed (the same query is `unsat` in a second with one seed and times out with another), so one seed is not a verdict.
	type entry struct {
		sp   solverSpec
		seed int
		file string
	}
	var race []entry
	for _, sp := range solvers {
		if only != "" && sp.name != only {
			continue
		}
		race = append(race, entry{sp, seed, ""})
	}
	if only == "" {
		extra := 5
		if vc.hasFloatDefs(o) && abstractFloats != 1 {
			extra = 1
		}
		for k := 1; k <= extra; k++ {
			race = append(race, entry{solverSpec{fmt.Sprintf("z3-new~%d", k), solvers[0].args}, seed + k, ""})
		}
	}
	if only == "" && !o.Cover && strings.Contains(smt, "(assert (forall ((r!q") {
		// "lean" racer: the same query without the quantified heap-frame / allocation-monotonicity facts of loops and calls
		// (dropping assumptions is sound: `unsat` is still a proof; any other answer of this racer is ignored). Obligations of
		// long functions whose goal does not depend on what earlier loops left unchanged are decided several times faster.
		var lbb strings.Builder
		for _, ln := range strings.Split(smt, "\n") {
			if strings.HasPrefix(ln, "(assert (forall ((r!q") {
				continue
			}
			lbb.WriteString(ln)
			lbb.WriteString("\n")
		}
		lb := lbb.String()
		lean := filepath.Join(dir, fmt.Sprintf("o%05d_lean.smt2", idx))
		if err := os.WriteFile(lean, []byte(lb), 0o644); err == nil {
			defer os.Remove(lean)
			race = append(race, entry{solverSpec{"z3-new/lean", solvers[0].args}, seed, lean})
		}
	}
	ch := make(chan solverAnswer, len(race))
	n := len(race)
	for _, e := range race {
		go func(e entry) {
			f := file
			if e.file != "" {
				f = e.file
			}
			a := runSolver(ctx, e.sp, f, timeoutS, e.seed)
			if e.file != "" && a.ans != "unsat" {
				a.ans = "unknown" // only a proof counts from the lean racer
			}
			a.solver = e.sp.name
			ch <- a
		}(e)
	}
	families := func(names []string) int {
		f := map[string]bool{}
		for _, nm := range names {
			if i := strings.IndexAny(nm, "~/"); i >= 0 {
				nm = nm[:i]
			}
			f[nm] = true
		}
		return len(f)
	}
	start := time.Now()
	var unsats []string
	var last solverAnswer
	decided := false
	var grace <-chan time.Time
loop:
	for i := 0; i < n; i++ {
		var a solverAnswer
		select {
		case a = <-ch:
		case <-grace:
			// thorough: a second solver family did not confirm within the grace period after the first proof
			break loop
		}
		res.AllOut[a.solver] = a.ans
		last = a
		if a.ans == "unsat" {
			unsats = append(unsats, a.solver)
			if !decided {
				res.Solver, res.Output, res.TimeS = a.solver, a.out, a.t
				decided = true
				if needAgree > 1 {
					g := 3 * time.Since(start)
					if g < 10*time.Second {
						g = 10 * time.Second
					}
					grace = time.After(g)
				}
			}
			if families(unsats) >= needAgree || o.Cover {
				break
			}
			continue
		}
		if a.ans == "sat" {
			// a model: definitive
			res.Solver, res.Output, res.TimeS = a.solver, a.out, a.t
			res.Model = parseModel(o, a.out)
			decided = true
			if o.Cover {
				res.Status = "cover-ok"
			} else {
				res.Status = "failed-sat"
			}
			cancel()
			return res
		}
	}
	cancel()
	res.Agree = unsats
	if res.TimeS == 0 {
		res.TimeS = time.Since(start).Seconds()
	}
	switch {
	case o.Cover && len(unsats) > 0:
		res.Status = "cover-vacuous"
	case o.Cover:
		res.Status = "cover-unknown"
		res.Output = last.out
	case families(unsats) >= needAgree || (len(unsats) > 0 && needAgree > 1 && n < needAgree):
		res.Status = "discharged"
	case len(unsats) > 0:
		// thorough wants agreement, but only one solver finished: still a proof by that solver
		res.Status = "discharged"
	default:
		res.Status = "failed-unknown"
		res.Output = last.out
		var parts []string
		for k, v := range res.AllOut {
			parts = append(parts, k+"="+v)
		}
		res.Solver = strings.Join(parts, ",")
	}
	return res
}

// parseModel extracts the (get-value ...) answers, in order of the observations.
func parseModel(o *Obligation, out string) map[string]string {
	m := map[string]string{}
	lines := strings.Split(out, "\n")
	// skip "sat"; each get-value yields one s-expression "((term value))" possibly spanning lines
	var sexprs []string
	depth := 0
	var cur strings.Builder
	for _, ln := range lines[1:] {
		for _, c := range ln {
			if c == '(' {
				depth++
			} else if c == ')' {
				depth--
			}
		}
		cur.WriteString(ln)
		cur.WriteByte(' ')
		if depth == 0 && strings.TrimSpace(cur.String()) != "" {
			sexprs = append(sexprs, strings.TrimSpace(cur.String()))
			cur.Reset()
		}
	}
	k := 0
	for _, s := range sexprs {
		if strings.HasPrefix(s, "(error") {
			k++
			continue
		}
		if k >= len(o.Observe) {
			break
		}
		// ((term value)) -> value
		inner := strings.TrimSpace(s)
		if strings.HasPrefix(inner, "((") && strings.HasSuffix(inner, "))") {
			parts := splitSexprArgs(inner[1 : len(inner)-1])
			if len(parts) >= 2 {
				m[o.Observe[k].Label] = parts[len(parts)-1]
			}
		}
		k++
	}
	return m
}

type job struct {
	vc  *VC
	o   *Obligation
	idx int
}

func solveAll(jobs []job, timeoutFor func(*Obligation) int, seed int, needAgree int, workers int) []*SolveResult {
	base := ""
	if fi, e := os.Stat("/dev/shm"); e == nil && fi.IsDir() {
		base = "/dev/shm"
	}
	dir, err := os.MkdirTemp(base, "hv-smt-")
	if err != nil {
		panic(err)
	}
	defer os.RemoveAll(dir)
	out := make([]*SolveResult, len(jobs))
	run := func(idxs []int, w int) {
		var wg sync.WaitGroup
		sem := make(chan struct{}, w)
		for _, i := range idxs {
			wg.Add(1)
			sem <- struct{}{}
			go func(i int) {
				defer wg.Done()
				defer func() { <-sem }()
				j := jobs[i]
				out[i] = solveObligation(j.vc, j.o, dir, i, timeoutFor(j.o), seed, needAgree, "")
			}(i)
		}
		wg.Wait()
	}
	// phase 1: obligations without float arithmetic (many, fast); phase 2: float obligations with few workers,
	// so that the slow exact-IEEE queries are not starved (each races three solver processes)
	var plain, floaty []int
	for i, j := range jobs {
		j.vc.prepAll()
		if !j.o.Cover && j.vc.hasFloatDefs(j.o) {
			floaty = append(floaty, i)
		} else {
			plain = append(plain, i)
		}
	}
	run(plain, workers)
	fw := workers / 3
	if fw < 1 {
		fw = 1
	}
	run(floaty, fw)
	return out
}

// fullModel: the obligation solved once more with the definitions of every observed term kept (the normal query prunes
// them by cone of influence, so their values would be missing); only a `sat` answer is used.
func fullModel(r *SolveResult, timeoutS int) map[string]string {
	if r.VC == nil {
		return nil
	}
	o2 := *r.Obl
	o2.Observe = append([]Observation(nil), r.Obl.Observe...)
	for _, lit := range r.VC.w.strOrder {
		o2.Observe = append(o2.Observe, Observation{Label: "strlit|" + lit, T: r.VC.w.strLit(lit)})
	}
	r.VC.obsCone = true
	smt := r.VC.smtForOpt(&o2, true, r.Mode)
	r.VC.obsCone = false
	dir, err := os.MkdirTemp("", "hv-fullmodel-")
	if err != nil {
		return nil
	}
	defer os.RemoveAll(dir)
	file := filepath.Join(dir, "q.smt2")
	if os.WriteFile(file, []byte(smt), 0o644) != nil {
		return nil
	}
	a := runSolver(context.Background(), solvers[0], file, timeoutS, 0)
	if a.ans != "sat" {
		return nil
	}
	return parseModel(&o2, a.out)
}
