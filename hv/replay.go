package main

// Replay of counterexamples on the real code (go test -overlay, nothing is written into /repo).
//
// Supported shape: functions whose parameters and results are scalars, strings or byte slices and whose failed clause
// mentions only parameters and results (event constructors, note-name functions, FindConfig-free helpers). The model's
// parameter values are turned into Go literals, the REAL function is executed in an injected in-package test, and the
// failed clause is re-evaluated by the solver on the concrete inputs and the OBSERVED outputs: the violation counts as
// replayed iff the clause is false on the real run. Other shapes: the replay file carries the model and the verdict ends
// with no-failing-input-found.

import (
	"encoding/json"
	"fmt"
	"go/types"
	"math"
	"os"
	"path/filepath"
	"regexp"
	"strconv"
	"strings"
	"time"

	"golang.org/x/tools/go/ssa"
)

var bvHexRe = regexp.MustCompile(`^#x([0-9a-fA-F]+)$`)
var bvBinRe = regexp.MustCompile(`^#b([01]+)$`)
var fpRe = regexp.MustCompile(`^\(fp #b([01]) #b([01]+) #[bx]([0-9a-fA-F]+)\)$`)

func parseBV(s string) (uint64, bool) {
	if m := bvHexRe.FindStringSubmatch(s); m != nil {
		v, err := strconv.ParseUint(m[1], 16, 64)
		return v, err == nil
	}
	if m := bvBinRe.FindStringSubmatch(s); m != nil {
		v, err := strconv.ParseUint(m[1], 2, 64)
		return v, err == nil
	}
	return 0, false
}

func parseFP(s string) (float64, bool) {
	s = strings.TrimSpace(s)
	switch {
	case strings.HasPrefix(s, "(_ +zero"):
		return 0, true
	case strings.HasPrefix(s, "(_ -zero"):
		return math.Copysign(0, -1), true
	case strings.HasPrefix(s, "(_ +oo"):
		return math.Inf(1), true
	case strings.HasPrefix(s, "(_ -oo"):
		return math.Inf(-1), true
	case strings.HasPrefix(s, "(_ NaN"):
		return math.NaN(), true
	}
	m := fpRe.FindStringSubmatch(s)
	if m == nil {
		return 0, false
	}
	sign, _ := strconv.ParseUint(m[1], 2, 64)
	exp, _ := strconv.ParseUint(m[2], 2, 64)
	var man uint64
	if strings.Contains(s, "#x"+m[3]) {
		man, _ = strconv.ParseUint(m[3], 16, 64)
	} else {
		man, _ = strconv.ParseUint(m[3], 2, 64)
	}
	return math.Float64frombits(sign<<63 | exp<<52 | man), true
}

func tryReplay(rf *ReplayFile, r *SolveResult, eng *Engine) {
	rf.ReplayNote = "no replay harness for this function shape; the model is recorded"
	// locate function and clause
	var fc *FuncContract
	var fn *ssa.Function
	for key, c := range eng.cf.Funcs {
		if c.Name == r.Obl.Func {
			fc, fn = c, eng.funcs[key]
		}
	}
	if fc == nil || fn == nil || r.Obl.Kind != "ensures" || fn.Signature.Recv() != nil {
		return
	}
	stem := r.Obl.Name
	if i := strings.IndexAny(stem, "@/"); i >= 0 {
		stem = stem[:i]
	}
	var clause *Clause
	for _, c := range fc.Ensures {
		if c.Name == stem {
			clause = c
		}
	}
	if clause == nil {
		return
	}
	// parameters from the model
	type pv struct {
		name string
		t    types.Type
		lit  string // Go literal
		smt  Term
	}
	var params []pv
	w := newWorld()
	for _, p := range fn.Params {
		val, ok := r.Model["param "+p.Name()]
		if !ok {
			return
		}
		b, isBasic := p.Type().Underlying().(*types.Basic)
		if !isBasic {
			return
		}
		switch {
		case b.Info()&types.IsInteger != 0:
			u, ok := parseBV(val)
			if !ok {
				return
			}
			wd := intWidth(b)
			lit := fmt.Sprintf("%d", u)
			if b.Info()&types.IsUnsigned == 0 {
				sv := int64(u)
				if wd < 64 && u>>(uint(wd)-1)&1 == 1 {
					sv = int64(u) - (1 << uint(wd))
				}
				lit = fmt.Sprintf("%d", sv)
			}
			params = append(params, pv{p.Name(), p.Type(), typeShort(p.Type()) + "(" + lit + ")", bvInt(wd, int64(u))})
		case b.Kind() == types.Float64:
			f, ok := parseFP(val)
			if !ok {
				return
			}
			params = append(params, pv{p.Name(), p.Type(), fmt.Sprintf("math.Float64frombits(0x%x)", math.Float64bits(f)), f64Term(f)})
		case b.Kind() == types.Bool:
			params = append(params, pv{p.Name(), p.Type(), val, Term{val, SBool}})
		default:
			return
		}
	}
	// results must be scalars or byte slices
	rs := fn.Signature.Results()
	for i := 0; i < rs.Len(); i++ {
		switch u := rs.At(i).Type().Underlying().(type) {
		case *types.Basic:
			if u.Info()&(types.IsInteger|types.IsBoolean) == 0 && u.Kind() != types.Float64 {
				return
			}
		case *types.Slice:
			if b, ok := u.Elem().Underlying().(*types.Basic); !ok || b.Kind() != types.Uint8 {
				return
			}
		default:
			return
		}
	}
	var args []string
	for _, p := range params {
		args = append(args, p.lit)
	}
	var rnames []string
	for i := 0; i < rs.Len(); i++ {
		rnames = append(rnames, fmt.Sprintf("r%d", i))
	}
	src := fmt.Sprintf(`package %s

import (
	"encoding/json"
	"fmt"
	"math"
	"testing"
)

var _ = math.Pi

func TestZZHvReplay(t *testing.T) {
	obs := map[string]interface{}{}
	func() {
		defer func() {
			if r := recover(); r != nil {
				obs["panic"] = fmt.Sprint(r)
			}
		}()
		%s := %s(%s)
		obs["results"] = []interface{}{%s}
	}()
	b, _ := json.Marshal(obs)
	fmt.Println("HV-REPLAY " + string(b))
}
`, fn.Pkg.Pkg.Name(), strings.Join(rnames, ", "), fn.Name(), strings.Join(args, ", "), strings.Join(rnames, ", "))
	rf.ReplayTest = src
	rf.ReplayPkg = strings.TrimPrefix(fn.Pkg.Pkg.Path(), modPath+"/")
	out, _ := runReplaySrc(rf.ReplayPkg, src)
	rf.ReplayOut = truncate(out, 4000)
	var obs struct {
		Panic   string        `json:"panic"`
		Results []interface{} `json:"results"`
	}
	found := false
	for _, ln := range strings.Split(out, "\n") {
		if strings.HasPrefix(ln, "HV-REPLAY ") {
			if json.Unmarshal([]byte(ln[len("HV-REPLAY "):]), &obs) == nil {
				found = true
			}
		}
	}
	if !found {
		rf.ReplayNote = "the replay test did not produce output"
		return
	}
	if obs.Panic != "" {
		rf.Replayed = true
		rf.ReplayNote = "the real function panics on the model's input: " + obs.Panic
		return
	}
	// re-evaluate the clause on the concrete inputs and observed outputs
	vc := newVC(w, "replay")
	curDefs = map[string]string{}
	x := &Exec{eng: eng, w: w, vc: vc, fn: fn, fc: fc, pkg: fn.Pkg.Pkg,
		vals: map[ssa.Value]Term{}, tuples: map[ssa.Value][]Term{}, iptr: map[string]Addr{},
		heapSorts: map[string]Sort{}, nilAxiom: map[string]bool{}, cardAx: map[string]bool{}, trusted: map[string]bool{}, assumedExterns: map[string]bool{}, dropped: map[string]bool{},
		closures: map[string]*ssa.MakeClosure{}, slInv: map[string]bool{}, allSorts: map[string]Sort{}, boxOf: map[string]boxedVal{}, freshRefs: map[string]bool{}}
	x.entry = newState()
	x.params = map[string]SVal{}
	x.lets = map[string]SVal{}
	ok := true
	func() {
		defer func() {
			if rec := recover(); rec != nil {
				ok = false
				rf.ReplayNote = fmt.Sprintf("clause could not be re-evaluated on the observed values: %v", rec)
			}
		}()
		for _, p := range params {
			x.params[p.name] = SVal{T: p.smt, Ty: goT(p.t)}
		}
		env := x.newEnv(x.entry, x.entry)
		for _, l := range fc.Lets {
			v := env.concrete(env.eval(l.E))
			x.lets[l.Name] = v
			env.vars[l.Name] = v
		}
		var results []Term
		for i := 0; i < rs.Len(); i++ {
			rt := rs.At(i).Type()
			switch u := rt.Underlying().(type) {
			case *types.Basic:
				switch {
				case u.Info()&types.IsBoolean != 0:
					results = append(results, Term{fmt.Sprint(obs.Results[i]), SBool})
				case u.Kind() == types.Float64:
					results = append(results, f64Term(obs.Results[i].(float64)))
				default:
					results = append(results, bvInt(intWidth(u), int64(obs.Results[i].(float64))))
				}
			case *types.Slice:
				// []byte is JSON-encoded as base64 by encoding/json; decode via Go
				bs := decodeB64(fmt.Sprint(obs.Results[i]))
				obs.Results[i] = fmt.Sprintf("bytes[% x]", bs)
				ref := vc.fresh("obs_slice", SRef)
				hn, hs := x.sliceHeap(u.Elem())
				h := x.heapGet(x.entry, hn, hs)
				for k, b := range bs {
					vc.assume(eq(sel(sel(h, ref), bvInt(64, int64(k))), bvInt(8, int64(b))), "observed byte")
				}
				results = append(results, mkSlice(ref, bvInt(64, 0), bvInt(64, int64(len(bs))), bvInt(64, int64(len(bs)))))
			}
		}
		bindResults(env, fn, results)
		goal := x.evalClause(env, clause)
		vc.oblige(&Obligation{Name: "replay." + clause.Name, Kind: "replay", Goal: goal, PC: tTrue})
	}()
	if !ok || len(vc.obls) == 0 {
		return
	}
	dir, _ := os.MkdirTemp("", "hv-replay-")
	defer os.RemoveAll(dir)
	holds := true
	for i, o := range vc.obls {
		sr := solveOnce(vc, o, dir, i, 30, 0, 1, "", 0)
		if sr.Status != "discharged" {
			holds = false
		}
	}
	if !holds {
		rf.Replayed = true
		rf.ReplayNote = fmt.Sprintf("replayed: %s(%s) on the real code returns %v, for which the clause is false", fn.Name(), strings.Join(args, ", "), obs.Results)
	} else {
		rf.ReplayNote = fmt.Sprintf("not reproduced: %s(%s) on the real code returns %v, which satisfies the clause", fn.Name(), strings.Join(args, ", "), obs.Results)
	}
}

func decodeB64(s string) []byte {
	var out []byte
	if err := json.Unmarshal([]byte(strconv.Quote(s)), &out); err != nil {
		return nil
	}
	return out
}

func runReplaySrc(pkg, src string) (string, bool) {
	dir, err := os.MkdirTemp("", "hv-replaysrc-")
	if err != nil {
		return err.Error(), false
	}
	defer os.RemoveAll(dir)
	f := filepath.Join(dir, "zz_hv_replay_test.go")
	os.WriteFile(f, []byte(src), 0o644)
	out, err := goTestOverlay(pkg, f, "TestZZHvReplay", "quick", 60*time.Second)
	return out, err != nil
}

func runReplayTest(pkg, src string) (string, bool) {
	out, failed := runReplaySrc(pkg, src)
	var lines []string
	for _, ln := range strings.Split(out, "\n") {
		if strings.HasPrefix(ln, "HV-") || strings.HasPrefix(ln, "--- ") || strings.HasPrefix(ln, "ok") || strings.HasPrefix(ln, "FAIL") {
			lines = append(lines, ln)
		}
	}
	return strings.Join(lines, "\n"), failed || strings.Contains(out, "HV-VIOLATION")
}
