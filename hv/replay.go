package main

// Replay of counterexamples on the real code (go test -overlay, nothing is written into /repo).

func tryReplay(rf *ReplayFile, r *SolveResult, eng *Engine) {
	rf.ReplayNote = "no replay harness for this function shape yet; model recorded"
}

func runReplayTest(pkg, src string) (string, bool) { return "", false }
