package main

// Contract files: //@ lines in comment-only Go files (build tag verif) next to the code.

import (
	"fmt"
	"os"
	"regexp"
	"strconv"
	"strings"
)

type Clause struct {
	Kind string // requires, ensures, invariant, lemma, assert
	Excl []string // exclusive tags (written C01!): when assumed (callee postcondition, loop invariant) the fact is only offered to obligations carrying one of these tags
	Tags []string
	Src  string
	E    Expr
	Name string // obligation name stem
	Line int
	File string
}

type Param struct {
	Name string
	Type string
}

type PredDecl struct {
	Name   string
	Params []Param
	Ret    string // "" for pred (bool)
	Body   Expr
	Src    string
}

type GhostDecl struct {
	Name string
	Type string
}

type GhostAssign struct {
	Name string
	E    Expr
}

type OnSend struct {
	Chan    string // e.g. Device.outputEvents
	Var     string
	Assigns []GhostAssign
}

type LoopAnn struct {
	Invariants []*Clause
	Decreases  Expr
	Modifies   []string
}

type LetDecl struct {
	Name string
	E    Expr
}

type CallSiteAnn struct {
	Callee  string
	Asserts []*Clause
}

type FuncContract struct {
	Name       string // SSA name relative: e.g. (*Device).NoteOff, ParseData, loadDirectory$1
	Pkg        string // import path
	Requires   []*Clause
	Ensures    []*Clause
	Modifies   []Expr
	ModSrc     []string
	HasMod     bool
	Lets       []LetDecl
	Safety     []string // tags; nil = no safety obligations generated
	SafetyOn   bool
	Loops      map[int]*LoopAnn
	Trusted    bool // contract assumed, body not verified (listed in evidence)
	EnvAssume  []*Clause
	SiteAsserts []*SiteAssert         // assertions at map-update sites selected by static map type
	Cuts       []*Cut
	GhostEntry []GhostAssign          // ghost assignments executed on entry
	CallAsserts map[string][]*Clause   // assertions at calls of the named callee (callee parameter names in scope)
	SendAssert []*Clause // assertions at every send site in this function (bound var e)
	Terminates   []string // tags of the termination obligations (structural: range loops only)
	TerminatesOn bool
	GuardedReads   []string // tags: every READ of a guarded field (or of a map / slice held in one) needs the guarding mutex (C16, reader side)
	GuardedReadsOn bool
	SiteGhosts []*SiteGhost // ghost assignments executed at map-update sites selected by static map type
	Walkrels   []*Clause // two-state relations over ghost state satisfied by every call of this callback; must be reflexive and transitive
	Walkpost   *WalkPost // the function is a tree-walk callback: per-entry postcondition used to summarise the walk
	Line       int
}

// WalkPost: `walkpost [tags] PRED(keyParam, otherParam)` in the contract of a callback passed to an extern of kind calls:N.
// Obligations on the callback: (1) result == nil ==> PRED(params); (2) stability: PRED(q, d) for any OTHER key q is
// preserved by a call. The extern's contract may then use cbpost(q, d) for "PRED holds for entry q" after the walk.
type WalkPost struct {
	Pred string
	Args []string
	Tags string
}

// Cut: a cut point of the float pipeline: at the first access of the named struct field the fact is proved
// (from the float operations since the previous cut) and from then on used instead of those operations.
type Cut struct {
	Field string
	C     *Clause
	Hit   bool
}

// SiteGhost: `siteghost mapupdate(TYPE) G = EXPR` - ghost code at every store into a map of that static type (m, k, v in scope)
type SiteGhost struct {
	Kind    string
	MapType string
	Ghost   string
	E       Expr
	Src     string
}

type SiteAssert struct {
	Kind    string // mapupdate | mapdelete
	MapType string
	C       *Clause
}

type ExternDecl struct {
	MayPanic  bool
	PanicTags []string
	Name     string // qualified, e.g. strings.HasPrefix or (*zap.Logger).Info
	Kind     string // havoc | fn | noreturn
	Params   []string
	Ensures  []*Clause
	Requires []*Clause
	Modifies []Expr
	Pattern  string // for regexp methods: the literal pattern the assumed contract was written for
}

type Lemma struct {
	Canary bool // must NOT be provable (vacuity guard for axioms and predicates)
	Name   string
	Tags   []string
	E      Expr
	Src    string
}

// GuardedBy: fields of a struct that may only be written while a mutex (another field of the same struct) is held
type GuardedBy struct {
	Struct string // e.g. Device
	Mutex  string // field name
	Fields map[string]bool
	Tags   []string
}

// LockInv: monitor invariant of a mutex field. At Lock (with other goroutines possibly running) the fields guarded by the
// mutex take arbitrary values satisfying the invariant; at Unlock the invariant is an obligation.
type LockInv struct {
	Struct string
	Mutex  string
	Var    string
	C      *Clause
}

type ContractFile struct {
	LockInvs []*LockInv
	Guarded []*GuardedBy
	LockCtx map[string][]string // function name -> implicit precondition source
	LockReaders map[string]map[string]bool // "Struct.mutex" -> functions that only read what it guards
	Pkg         string
	Ghosts      []GhostDecl
	OnSends     []*OnSend
	Preds       map[string]*PredDecl
	Funcs       map[string]*FuncContract
	FuncOrder   []string
	Externs     map[string]*ExternDecl
	Lemmas      []*Lemma
	Axioms      []*Clause
	SendAsserts map[string][]*Clause // channel key -> assertions at each send
}

var directiveKw = map[string]bool{
	"ghost": true, "on": true, "pred": true, "spec": true, "func": true, "requires": true, "ensures": true,
	"modifies": true, "let": true, "safety": true, "loop": true, "assume": true, "lemma": true,
	"extern": true, "axiom": true, "canary": true, "callassert": true, "siteassert": true, "cut": true, "guarded_by": true, "lockinv": true, "lockctx": true, "trusted": true, "sendassert": true, "terminates": true, "guardedreads": true, "lockreaders": true, "walkpost": true, "walkrel": true, "siteghost": true,
}

var tagRe = regexp.MustCompile(`^\[([A-Za-z0-9_,! ]*)\]\s*`)

func parseTags(s string) ([]string, string) {
	m := tagRe.FindStringSubmatch(s)
	if m == nil {
		return nil, s
	}
	var tags []string
	for _, t := range strings.Split(m[1], ",") {
		t = strings.TrimSpace(t)
		if t != "" {
			tags = append(tags, t)
		}
	}
	return tags, s[len(m[0]):]
}

func parseParams(s string) ([]Param, error) {
	s = strings.TrimSpace(s)
	if s == "" {
		return nil, nil
	}
	var ps []Param
	for _, part := range splitTop(s, ',') {
		part = strings.TrimSpace(part)
		i := strings.IndexAny(part, " \t")
		if i < 0 {
			return nil, fmt.Errorf("bad param %q", part)
		}
		ps = append(ps, Param{part[:i], strings.TrimSpace(part[i+1:])})
	}
	return ps, nil
}

// splitTop splits on sep at nesting depth 0 of ()[]{}.
func splitTop(s string, sep byte) []string {
	var out []string
	depth := 0
	last := 0
	inStr := false
	for i := 0; i < len(s); i++ {
		c := s[i]
		if inStr {
			if c == '\\' {
				i++
			} else if c == '"' {
				inStr = false
			}
			continue
		}
		switch c {
		case '"':
			inStr = true
		case '(', '[', '{':
			depth++
		case ')', ']', '}':
			depth--
		default:
			if c == sep && depth == 0 {
				out = append(out, s[last:i])
				last = i + 1
			}
		}
	}
	out = append(out, s[last:])
	return out
}

type rawDirective struct {
	text string
	line int
	file string
}

func readDirectives(path string) ([]rawDirective, error) {
	data, err := os.ReadFile(path)
	if err != nil {
		return nil, err
	}
	var out []rawDirective
	for i, ln := range strings.Split(string(data), "\n") {
		t := strings.TrimSpace(ln)
		if !strings.HasPrefix(t, "//@") {
			continue
		}
		body := strings.TrimSpace(t[3:])
		if body == "" || strings.HasPrefix(body, "--") {
			continue
		}
		// strip trailing " -- comment"
		if k := strings.Index(body, " -- "); k >= 0 {
			body = strings.TrimSpace(body[:k])
		}
		first := body
		if k := strings.IndexAny(body, " \t("); k >= 0 {
			first = body[:k]
		}
		isDir := directiveKw[first]
		if first == "let" && strings.Contains(body, " in ") {
			isDir = false // expression-level let ... in
		}
		if isDir || len(out) == 0 {
			out = append(out, rawDirective{body, i + 1, path})
		} else {
			out[len(out)-1].text += " " + body
		}
	}
	return out, nil
}

func mkClause(kind, rest, file string, line int) (*Clause, error) {
	tags, src := parseTags(strings.TrimSpace(rest))
	var excl []string
	for i, t := range tags {
		if strings.HasSuffix(t, "!") {
			tags[i] = strings.TrimSuffix(t, "!")
			excl = append(excl, tags[i])
		}
	}
	e, err := parseExpr(src)
	if err != nil {
		return nil, fmt.Errorf("%s:%d: %v", file, line, err)
	}
	return &Clause{Kind: kind, Tags: tags, Excl: excl, Src: src, E: e, Line: line, File: file}, nil
}

func parseContractFile(path, pkg string, cf *ContractFile) error {
	dirs, err := readDirectives(path)
	if err != nil {
		return err
	}
	var cur *FuncContract
	var lastExtern *ExternDecl
	for _, d := range dirs {
		if d0 := strings.Fields(d.text); len(d0) > 0 && d0[0] != "requires" && d0[0] != "ensures" && d0[0] != "modifies" {
			lastExtern = nil
		}
		fields := strings.Fields(d.text)
		kw := fields[0]
		rest := strings.TrimSpace(d.text[len(kw):])
		fail := func(e error) error { return fmt.Errorf("%s:%d: %v", d.file, d.line, e) }
		switch kw {
		case "ghost":
			if len(fields) >= 4 && fields[1] == "entry" && cur != nil {
				// ghost entry NAME = EXPR
				r2 := strings.TrimSpace(rest[len("entry"):])
				k := strings.Index(r2, "=")
				e, err := parseExpr(r2[k+1:])
				if err != nil {
					return fail(err)
				}
				cur.GhostEntry = append(cur.GhostEntry, GhostAssign{strings.TrimSpace(r2[:k]), e})
				continue
			}
			// ghost var NAME TYPE
			if len(fields) < 4 || fields[1] != "var" {
				return fail(fmt.Errorf("bad ghost decl"))
			}
			cf.Ghosts = append(cf.Ghosts, GhostDecl{fields[2], strings.Join(fields[3:], "")})
		case "on":
			// on send Chan(e) { a = expr; ... }
			m := regexp.MustCompile(`^send\s+([A-Za-z0-9_.]+)\((\w+)\)\s*\{(.*)\}\s*$`).FindStringSubmatch(rest)
			if m == nil {
				return fail(fmt.Errorf("bad on-send"))
			}
			os := &OnSend{Chan: m[1], Var: m[2]}
			for _, a := range splitTop(m[3], ';') {
				a = strings.TrimSpace(a)
				if a == "" {
					continue
				}
				k := strings.Index(a, "=")
				e, err := parseExpr(a[k+1:])
				if err != nil {
					return fail(err)
				}
				os.Assigns = append(os.Assigns, GhostAssign{strings.TrimSpace(a[:k]), e})
			}
			cf.OnSends = append(cf.OnSends, os)
		case "siteghost":
			if cur == nil {
				return fail(fmt.Errorf("siteghost outside func"))
			}
			m := regexp.MustCompile(`^(mapupdate)\((.*?)\)\s+(\w+)\s*=\s*(.*)$`).FindStringSubmatch(rest)
			if m == nil {
				return fail(fmt.Errorf("bad siteghost"))
			}
			e, err := parseExpr(m[4])
			if err != nil {
				return fail(err)
			}
			cur.SiteGhosts = append(cur.SiteGhosts, &SiteGhost{Kind: m[1], MapType: m[2], Ghost: m[3], E: e, Src: m[4]})
		case "walkrel":
			// walkrel [tags] EXPR  -- a relation between old(...) and current GHOST state that every call of the callback satisfies
			if cur == nil {
				return fail(fmt.Errorf("walkrel outside func"))
			}
			c, err := mkClause("ensures", rest, d.file, d.line)
			if err != nil {
				return err
			}
			c.Name = fmt.Sprintf("%s.walkrel%d", cur.Name, len(cur.Walkrels)+1)
			cur.Walkrels = append(cur.Walkrels, c)
			cur.Ensures = append(cur.Ensures, c)
		case "walkpost":
			if cur == nil {
				return fail(fmt.Errorf("walkpost outside func"))
			}
			m := regexp.MustCompile(`^(\[[^\]]*\])?\s*(\w+)\((\w+)\s*,\s*(\w+)\)$`).FindStringSubmatch(rest)
			if m == nil {
				return fail(fmt.Errorf("bad walkpost (want: walkpost [tags] PRED(keyParam, entryParam))"))
			}
			cur.Walkpost = &WalkPost{Pred: m[2], Args: []string{m[3], m[4]}, Tags: m[1]}
		case "callassert":
			// callassert CALLEE [tags] expr   (inside a func block)
			if cur == nil {
				return fail(fmt.Errorf("callassert outside func"))
			}
			r2 := strings.TrimSpace(strings.TrimPrefix(rest, fields[1]))
			c, err := mkClause("callassert", r2, d.file, d.line)
			if err != nil {
				return err
			}
			if cur.CallAsserts == nil {
				cur.CallAsserts = map[string][]*Clause{}
			}
			c.Name = fmt.Sprintf("%s.callassert(%s)%d", cur.Name, fields[1], len(cur.CallAsserts[fields[1]])+1)
			cur.CallAsserts[fields[1]] = append(cur.CallAsserts[fields[1]], c)
		case "guarded_by":
			// guarded_by Struct.mutexField [tags]: f1, f2, ...
			m := regexp.MustCompile(`^(\w+)\.(\w+)\s*(\[[^\]]*\])?\s*:\s*(.*)$`).FindStringSubmatch(rest)
			if m == nil {
				return fail(fmt.Errorf("bad guarded_by"))
			}
			g := &GuardedBy{Struct: m[1], Mutex: m[2], Fields: map[string]bool{}}
			g.Tags, _ = parseTags(m[3])
			for _, f := range strings.Split(m[4], ",") {
				if f = strings.TrimSpace(f); f != "" {
					g.Fields[f] = true
				}
			}
			cf.Guarded = append(cf.Guarded, g)
			cur = nil
		case "lockinv":
			// lockinv Struct.mutexField [tags] VAR: EXPR
			m := regexp.MustCompile(`^(\w+)\.(\w+)\s*(\[[^\]]*\])?\s*(\w+)\s*:\s*(.*)$`).FindStringSubmatch(rest)
			if m == nil {
				return fail(fmt.Errorf("bad lockinv"))
			}
			c, err := mkClause("lockinv", m[3]+" "+m[5], d.file, d.line)
			if err != nil {
				return err
			}
			c.Name = fmt.Sprintf("lockinv(%s.%s)", m[1], m[2])
			cf.LockInvs = append(cf.LockInvs, &LockInv{Struct: m[1], Mutex: m[2], Var: m[4], C: c})
			cur = nil
		case "lockreaders":
			// lockreaders Struct.mutexField: f1, f2, ...  -- the listed functions only READ the fields the mutex guards; every other
			// function under contract that takes the mutex belongs to the single writer thread: for it nothing changes at Lock
			k := strings.Index(rest, ":")
			if k < 0 {
				return fail(fmt.Errorf("bad lockreaders"))
			}
			key := strings.TrimSpace(rest[:k])
			if cf.LockReaders == nil {
				cf.LockReaders = map[string]map[string]bool{}
			}
			if cf.LockReaders[key] == nil {
				cf.LockReaders[key] = map[string]bool{}
			}
			for _, f := range strings.Split(rest[k+1:], ",") {
				if f = strings.TrimSpace(f); f != "" {
					cf.LockReaders[key][pkg+"#"+f] = true
				}
			}
			cur = nil
		case "lockctx":
			// lockctx [tags] EXPR : f1, f2, ...   -- every listed function gets the implicit precondition EXPR
			k := strings.LastIndex(rest, " : ")
			if k < 0 {
				return fail(fmt.Errorf("bad lockctx"))
			}
			for _, f := range strings.Split(rest[k+3:], ",") {
				if f = strings.TrimSpace(f); f != "" {
					if cf.LockCtx == nil {
						cf.LockCtx = map[string][]string{}
					}
					cf.LockCtx[pkg+"#"+f] = append(cf.LockCtx[pkg+"#"+f], strings.TrimSpace(rest[:k]))
				}
			}
			cur = nil
		case "cut":
			// cut load(.FIELD) [tags] expr
			if cur == nil {
				return fail(fmt.Errorf("cut outside func"))
			}
			m := regexp.MustCompile(`^load\(\.(\w+)\)\s+(.*)$`).FindStringSubmatch(rest)
			if m == nil {
				return fail(fmt.Errorf("bad cut"))
			}
			c, err := mkClause("cut", m[2], d.file, d.line)
			if err != nil {
				return err
			}
			c.Name = fmt.Sprintf("%s.cut(.%s)%d", cur.Name, m[1], len(cur.Cuts)+1)
			cur.Cuts = append(cur.Cuts, &Cut{Field: m[1], C: c})
		case "siteassert":
			// siteassert mapupdate(TYPE) [tags] expr  -- k, v are the stored key and value; locals by name
			if cur == nil {
				return fail(fmt.Errorf("siteassert outside func"))
			}
			m := regexp.MustCompile(`^(mapupdate|mapdelete)\((.*?)\)\s+(\[.*)$`).FindStringSubmatch(rest)
			if m == nil {
				return fail(fmt.Errorf("bad siteassert"))
			}
			c, err := mkClause("siteassert", m[3], d.file, d.line)
			if err != nil {
				return err
			}
			c.Name = fmt.Sprintf("%s.%s(%s)%d", cur.Name, m[1], m[2], len(cur.SiteAsserts)+1)
			cur.SiteAsserts = append(cur.SiteAsserts, &SiteAssert{Kind: m[1], MapType: m[2], C: c})
		case "sendassert":
			// sendassert Chan(e) [tags] expr
			m := regexp.MustCompile(`^([A-Za-z0-9_.]+)\((\w+)\)\s*(.*)$`).FindStringSubmatch(rest)
			if m == nil {
				return fail(fmt.Errorf("bad sendassert"))
			}
			c, err := mkClause("sendassert", m[3], d.file, d.line)
			if err != nil {
				return err
			}
			c.Name = m[2]
			cf.SendAsserts[m[1]] = append(cf.SendAsserts[m[1]], c)
		case "pred", "spec":
			r := rest
			if kw == "spec" {
				if !strings.HasPrefix(r, "fn") {
					return fail(fmt.Errorf("expected 'spec fn'"))
				}
				r = strings.TrimSpace(r[2:])
			}
			lp := strings.Index(r, "(")
			// find matching paren
			depth := 0
			rp := -1
			for i := lp; i < len(r); i++ {
				if r[i] == '(' {
					depth++
				} else if r[i] == ')' {
					depth--
					if depth == 0 {
						rp = i
						break
					}
				}
			}
			if lp < 0 || rp < 0 {
				return fail(fmt.Errorf("bad pred decl"))
			}
			name := strings.TrimSpace(r[:lp])
			params, err := parseParams(r[lp+1 : rp])
			if err != nil {
				return fail(err)
			}
			after := strings.TrimSpace(r[rp+1:])
			k := strings.Index(after, ":=")
			if k < 0 && kw == "spec" && after != "" {
				// spec fn NAME(params) T   -- no body: an uninterpreted function (pure ghost vocabulary)
				cf.Preds[name] = &PredDecl{Name: name, Params: params, Ret: after, Body: nil, Src: "(uninterpreted)"}
				continue
			}
			if k < 0 {
				return fail(fmt.Errorf("missing := in pred"))
			}
			ret := strings.TrimSpace(after[:k])
			body, err := parseExpr(after[k+2:])
			if err != nil {
				return fail(err)
			}
			if kw == "pred" {
				ret = "bool"
			}
			cf.Preds[name] = &PredDecl{Name: name, Params: params, Ret: ret, Body: body, Src: after[k+2:]}
		case "func":
			name := rest
			cur = &FuncContract{Name: name, Pkg: pkg, Loops: map[int]*LoopAnn{}, Line: d.line}
			if _, dup := cf.Funcs[pkg+"#"+name]; dup {
				return fail(fmt.Errorf("duplicate contract for %s", name))
			}
			cf.Funcs[pkg+"#"+name] = cur
			cf.FuncOrder = append(cf.FuncOrder, pkg+"#"+name)
		case "requires", "ensures":
			if cur == nil && lastExtern != nil {
				// continuation lines of a multi-line extern declaration
				if err := parseExternTail(lastExtern, d.text, d.file, d.line); err != nil {
					return fail(err)
				}
				continue
			}
			if cur == nil {
				return fail(fmt.Errorf("%s outside func", kw))
			}
			c, err := mkClause(kw, rest, d.file, d.line)
			if err != nil {
				return err
			}
			if kw == "requires" {
				c.Name = fmt.Sprintf("%s.requires%d", cur.Name, len(cur.Requires)+1)
				cur.Requires = append(cur.Requires, c)
			} else {
				c.Name = fmt.Sprintf("%s.ensures%d", cur.Name, len(cur.Ensures)+1)
				cur.Ensures = append(cur.Ensures, c)
			}
		case "modifies":
			if cur == nil && lastExtern != nil {
				if err := parseExternTail(lastExtern, d.text, d.file, d.line); err != nil {
					return fail(err)
				}
				continue
			}
			if cur == nil {
				return fail(fmt.Errorf("modifies outside func"))
			}
			cur.HasMod = true
			for _, loc := range splitTop(rest, ',') {
				loc = strings.TrimSpace(loc)
				if loc == "" || loc == "nothing" {
					continue
				}
				e, err := parseExpr(strings.ReplaceAll(loc, "[_]", "[$any]"))
				if err != nil {
					return fail(err)
				}
				cur.Modifies = append(cur.Modifies, e)
				cur.ModSrc = append(cur.ModSrc, loc)
			}
		case "let":
			if cur == nil {
				return fail(fmt.Errorf("let outside func"))
			}
			k := strings.Index(rest, ":=")
			if k < 0 {
				return fail(fmt.Errorf("bad let"))
			}
			e, err := parseExpr(rest[k+2:])
			if err != nil {
				return fail(err)
			}
			cur.Lets = append(cur.Lets, LetDecl{strings.TrimSpace(rest[:k]), e})
		case "safety":
			if cur == nil {
				return fail(fmt.Errorf("safety outside func"))
			}
			tags, _ := parseTags(rest)
			cur.Safety = tags
			cur.SafetyOn = true
		case "terminates":
			// terminates [tags]: every loop of the function has a structural bound (range over a slice, string or map)
			if cur == nil {
				return fail(fmt.Errorf("terminates outside func"))
			}
			cur.Terminates, _ = parseTags(rest)
			cur.TerminatesOn = true
		case "guardedreads":
			// guardedreads [tags]: in this function every read of a field listed in a guarded_by declaration needs the mutex
			if cur == nil {
				return fail(fmt.Errorf("guardedreads outside func"))
			}
			cur.GuardedReads, _ = parseTags(rest)
			cur.GuardedReadsOn = true
		case "trusted":
			if cur == nil {
				return fail(fmt.Errorf("trusted outside func"))
			}
			cur.Trusted = true
		case "loop":
			if cur == nil {
				return fail(fmt.Errorf("loop outside func"))
			}
			n, err := strconv.Atoi(fields[1])
			if err != nil {
				return fail(err)
			}
			la := cur.Loops[n]
			if la == nil {
				la = &LoopAnn{}
				cur.Loops[n] = la
			}
			r2 := strings.TrimSpace(strings.TrimPrefix(rest, fields[1]))
			switch {
			case strings.HasPrefix(r2, "invariant"):
				c, err := mkClause("invariant", r2[len("invariant"):], d.file, d.line)
				if err != nil {
					return err
				}
				c.Name = fmt.Sprintf("%s.loop%d.inv%d", cur.Name, n, len(la.Invariants)+1)
				la.Invariants = append(la.Invariants, c)
			case strings.HasPrefix(r2, "decreases"):
				e, err := parseExpr(r2[len("decreases"):])
				if err != nil {
					return fail(err)
				}
				la.Decreases = e
			default:
				return fail(fmt.Errorf("bad loop annotation %q", r2))
			}
		case "assume":
			// assume env EXPR (inside func)
			if cur == nil || len(fields) < 2 || fields[1] != "env" {
				return fail(fmt.Errorf("bad assume"))
			}
			c, err := mkClause("assume", strings.TrimSpace(rest[3:]), d.file, d.line)
			if err != nil {
				return err
			}
			cur.EnvAssume = append(cur.EnvAssume, c)
		case "lemma", "canary":
			k := strings.Index(rest, ":")
			// name [tags]: expr ; the first ':' not part of '::' or ':='
			for k >= 0 && k+1 < len(rest) && (rest[k+1] == ':' || rest[k+1] == '=') {
				nk := strings.Index(rest[k+2:], ":")
				if nk < 0 {
					k = -1
				} else {
					k = k + 2 + nk
				}
			}
			if k < 0 {
				return fail(fmt.Errorf("bad lemma"))
			}
			head := strings.TrimSpace(rest[:k])
			hf := strings.Fields(head)
			tags, _ := parseTags(strings.TrimSpace(head[len(hf[0]):]))
			e, err := parseExpr(rest[k+1:])
			if err != nil {
				return fail(err)
			}
			cf.Lemmas = append(cf.Lemmas, &Lemma{Name: hf[0], Tags: tags, E: e, Src: strings.TrimSpace(rest[k+1:]), Canary: kw == "canary"})
			cur = nil
		case "extern":
			// extern NAME kind [ensures EXPR]   params are p0,p1,... result
			if len(fields) < 3 {
				return fail(fmt.Errorf("bad extern"))
			}
			ex := &ExternDecl{Name: fields[1], Kind: fields[2]}
			r2 := strings.TrimSpace(strings.TrimPrefix(strings.TrimSpace(strings.TrimPrefix(rest, fields[1])), fields[2]))
			if err := parseExternTail(ex, r2, d.file, d.line); err != nil {
				return fail(err)
			}
			lastExtern = ex
			cf.Externs[ex.Name] = ex
			cur = nil
		case "axiom":
			k := strings.Index(rest, ":")
			c, err := mkClause("axiom", rest[k+1:], d.file, d.line)
			if err != nil {
				return err
			}
			c.Name = strings.TrimSpace(rest[:k])
			c.Kind = "axiom:" + pkg
			cf.Axioms = append(cf.Axioms, c)
			cur = nil
		default:
			return fail(fmt.Errorf("unknown directive %q", kw))
		}
	}
	return nil
}

func newContractFile() *ContractFile {
	return &ContractFile{Preds: map[string]*PredDecl{}, Funcs: map[string]*FuncContract{}, Externs: map[string]*ExternDecl{}, SendAsserts: map[string][]*Clause{}}
}

// parseExternTail: [pattern `re`] [requires e] [ensures e] [modifies locs] ... in any order, repeated
func parseExternTail(ex *ExternDecl, r2, file string, line int) error {
	fail := func(e error) error { return e }
	d := struct {
		file string
		line int
	}{file, line}
	for r2 != "" {
		var kind string
		if strings.HasPrefix(r2, "ensures") {
			kind = "ensures"
		} else if strings.HasPrefix(r2, "requires") {
			kind = "requires"
		} else if strings.HasPrefix(r2, "modifies") {
			kind = "modifies"
		} else if strings.HasPrefix(r2, "maypanic") {
			// the callee may panic on some inputs: every call has to be under a deferred recover of the calling function
			ex.MayPanic = true
			r2 = strings.TrimSpace(r2[len("maypanic"):])
			ex.PanicTags, r2 = parseTags(r2)
			r2 = strings.TrimSpace(r2)
			continue
		} else if strings.HasPrefix(r2, "pattern") {
			// pattern `...` (rest of the directive up to the closing backquote)
			r2 = strings.TrimSpace(r2[len("pattern"):])
			if !strings.HasPrefix(r2, "`") || strings.Index(r2[1:], "`") < 0 {
				return fail(fmt.Errorf("bad pattern"))
			}
			end := strings.Index(r2[1:], "`") + 1
			ex.Pattern = r2[1:end]
			r2 = strings.TrimSpace(r2[end+1:])
			continue
		} else {
			return fail(fmt.Errorf("bad extern tail %q", r2))
		}
		r2 = strings.TrimSpace(r2[len(kind):])
		// up to next " ensures " / " requires "
		end := len(r2)
		for _, k := range []string{" ensures ", " requires ", " modifies ", " pattern "} {
			if i := strings.Index(r2, k); i >= 0 && i < end {
				end = i
			}
		}
		if kind == "modifies" {
			for _, loc := range splitTop(r2[:end], ',') {
				e, err := parseExpr(strings.ReplaceAll(strings.TrimSpace(loc), "[_]", "[$any]"))
				if err != nil {
					return fail(err)
				}
				ex.Modifies = append(ex.Modifies, e)
			}
			r2 = strings.TrimSpace(r2[end:])
			continue
		}
		c, err := mkClause(kind, r2[:end], d.file, d.line)
		if err != nil {
			return err
		}
		c.Name = ex.Name + "." + kind
		if kind == "ensures" {
			ex.Ensures = append(ex.Ensures, c)
		} else {
			ex.Requires = append(ex.Requires, c)
		}
		r2 = strings.TrimSpace(r2[end:])
	}
	return nil
}
