package main

// Calls: builtins, contract application (modular), externs, dynamic calls; function-level driver.

import (
	"fmt"
	"go/constant"
	"go/types"
	"regexp"
	"sort"
	"strings"

	"golang.org/x/tools/go/ssa"
)

var pathRe = regexp.MustCompile(`[A-Za-z0-9_.\-]+/`)

func shortName(full string) string { return pathRe.ReplaceAllString(full, "") }

func calleeName(fn *ssa.Function) string { return shortName(fn.String()) }

type frameEntry struct {
	heap  string
	sort  Sort
	ref   *Term // nil = whole heap
	ghost string
	alloc bool
}

// evalModifies turns the modifies clauses of a contract into frame entries (evaluated in state st).
func (x *Exec) evalModifies(fc *FuncContract, env *Env) []frameEntry {
	var out []frameEntry
	for k, m := range fc.Modifies {
		func() {
			defer func() {
				if r := recover(); r != nil {
					if se, ok := r.(specError); ok {
						panic(specError{fmt.Sprintf("modifies %q of %s: %s", fc.ModSrc[k], fc.Name, se.msg)})
					}
					panic(r)
				}
			}()
			out = append(out, x.frameOf(m, env)...)
		}()
	}
	return out
}

func (x *Exec) frameOf(m Expr, env *Env) []frameEntry {
	switch n := m.(type) {
	case *EIdent:
		if n.Name == "alloc" {
			return []frameEntry{{alloc: true}}
		}
		if x.eng.ghostDecl(n.Name) != nil {
			return []frameEntry{{ghost: n.Name}}
		}
		sfail("modifies: unknown location %s", n.Name)
	case *ECall:
		if n.Fn == "ghost" {
			return x.frameOf(n.Args[0], env)
		}
		if n.Fn == "heap" {
			ty := x.resolveType(n.Args[0].(*EStr).V, env.pkg)
			switch u := ty.Go.Underlying().(type) {
			case *types.Slice:
				hn, hs := x.sliceHeap(u.Elem())
				return []frameEntry{{heap: hn, sort: hs}}
			case *types.Map:
				mv, mp, mvS, mpS, _, _ := x.mapHeaps(u)
				return []frameEntry{{heap: mv, sort: mvS}, {heap: mp, sort: mpS}}
			case *types.Pointer:
				if _, isStruct := u.Elem().Underlying().(*types.Struct); !isStruct {
					hn, hs := x.ptrHeap(u.Elem())
					return []frameEntry{{heap: hn, sort: hs}}
				}
			}
			sfail("modifies heap(%s): unsupported type", ty)
		}
	case *ESelect:
		base := env.eval(n.X)
		p, ok := base.Ty.Go.Underlying().(*types.Pointer)
		if !ok {
			// nested struct field of a pointer field: modifies the top-level field
			if inner, ok2 := n.X.(*ESelect); ok2 {
				return x.frameOf(inner, env)
			}
			sfail("modifies: %s is not a field of a pointer", n)
		}
		st := p.Elem().Underlying().(*types.Struct)
		i := fieldIndex(st, n.Field)
		if i < 0 {
			sfail("modifies: no field %s", n.Field)
		}
		hn, hs := x.fieldHeap(p.Elem(), i)
		r := base.T
		return []frameEntry{{heap: hn, sort: hs, ref: &r}}
	case *EIndex:
		// whole-heap form: X[$any][$any]
		if inner, ok := n.X.(*EIndex); ok && isAny(inner.I) {
			outer := env.eval(inner.X)
			om, ok := outer.Ty.Go.Underlying().(*types.Map)
			if !ok {
				sfail("modifies: %s is not a map of maps", n)
			}
			im, ok := om.Elem().Underlying().(*types.Map)
			if !ok {
				sfail("modifies: %s is not a map of maps", n)
			}
			mv, mp, mvS, mpS, _, _ := x.mapHeaps(im)
			return []frameEntry{{heap: mv, sort: mvS}, {heap: mp, sort: mpS}}
		}
		base := env.eval(n.X)
		switch u := base.Ty.Go.Underlying().(type) {
		case *types.Map:
			mv, mp, mvS, mpS, _, _ := x.mapHeaps(u)
			r := base.T
			return []frameEntry{{heap: mv, sort: mvS, ref: &r}, {heap: mp, sort: mpS, ref: &r}}
		case *types.Slice:
			hn, hs := x.sliceHeap(u.Elem())
			r := sliceRef(base.T)
			return []frameEntry{{heap: hn, sort: hs, ref: &r}}
		}
		sfail("modifies: cannot index %s", n.X)
	}
	sfail("modifies: unsupported location %s", m)
	return nil
}

func isAny(e Expr) bool {
	id, ok := e.(*EIdent)
	return ok && id.Name == "$any"
}

func (x *Exec) havocFrame(st *State, fr []frameEntry, why string) {
	type grp struct {
		sort  Sort
		whole bool
		refs  []Term
	}
	groups := map[string]*grp{}
	var names []string
	for _, f := range fr {
		switch {
		case f.alloc:
			as := arraySort(SRef, SBool)
			old := x.heapGet(st, allocHeap, as)
			nw := x.vc.fresh("H_alloc_call", as)
			x.qn++
			r := fmt.Sprintf("r!q%d", x.qn)
			x.vc.assume(T(SBool, "(forall ((%s Ref)) (! (=> (select %s %s) (select %s %s)) :pattern ((select %s %s))))", r, old.S, r, nw.S, r, nw.S, r), "allocation is monotone across call")
			st.heaps[allocHeap] = nw
			x.paramsStayAllocated(nw)
		case f.ghost != "":
			st.ghosts[f.ghost] = x.vc.fresh("G_"+f.ghost+"_call", x.ghostGet(st, f.ghost).Sort)
		default:
			g := groups[f.heap]
			if g == nil {
				g = &grp{sort: f.sort}
				groups[f.heap] = g
				names = append(names, f.heap)
			}
			if f.ref == nil {
				g.whole = true
			} else {
				g.refs = append(g.refs, *f.ref)
			}
		}
	}
	sort.Strings(names)
	for _, n := range names {
		g := groups[n]
		cur := x.heapGet(st, n, g.sort)
		if g.whole {
			st.heaps[n] = x.vc.fresh(heapSym(n)+"_call", g.sort)
			x.writeLog = append(x.writeLog, heapWrite{n, "*"})
			continue
		}
		_, vs := g.sort.arrayParts()
		for _, r := range g.refs {
			cur = sto(cur, r, x.vc.fresh(heapSym(n)+"_at", vs))
		}
		x.heapSet(st, n, cur)
	}
}

// applyContract: assert requires, havoc modifies, assume ensures.
func (x *Exec) applyContract(fc *FuncContract, callee *ssa.Function, args []Term, st *State, pc Term, pos string) []Term {
	cpkg := callee.Pkg.Pkg
	env := &Env{x: x, cur: st, old: st, vars: map[string]SVal{}, pkg: cpkg}
	pre := st.clone()
	env.cur, env.old = pre, pre
	bindParams(x, env, callee, args, pre)
	for _, l := range fc.Lets {
		env.vars[l.Name] = env.concrete(env.eval(l.E))
	}
	for _, c := range fc.Requires {
		goal := x.evalClause(env, c)
		x.nsafety++
		x.vc.oblige(&Obligation{Name: fmt.Sprintf("%s.call(%s).%s#%d", x.fnName(), fc.Name, c.Name[strings.LastIndex(c.Name, ".")+1:], x.nsafety),
			Kind: "requires-at-call", Tags: c.Tags, Goal: goal, PC: pc, Src: c.Src, Pos: pos, Observe: x.observations()})
		x.vc.assume(implies(pc, goal), "callee precondition established")
	}
	// results
	var results []Term
	rs := callee.Signature.Results()
	for i := 0; i < rs.Len(); i++ {
		results = append(results, x.vc.fresh("ret_"+callee.Name(), x.w.sortOf(rs.At(i).Type())))
	}
	bindResults(env, callee, results)
	fr := x.evalModifies(fc, env)
	x.havocFrame(st, fr, fc.Name)
	post := *env
	post.cur = st
	post.old = pre
	for _, c := range fc.Ensures {
		// a postcondition that mentions the callee's local variables cannot be expressed at the call site:
		// it is simply not assumed there (fewer assumptions, still sound)
		func() {
			defer func() {
				if r := recover(); r != nil {
					if _, ok := r.(specError); ok {
						return
					}
					panic(r)
				}
			}()
			t := x.evalClause(&post, c)
			x.vc.assumeTagged(implies(pc, t), "postcondition of "+fc.Name, c.Excl)
		}()
	}
	return results
}

func bindParams(x *Exec, env *Env, callee *ssa.Function, args []Term, st *State) {
	k := 0
	bind := func(name string, t types.Type) {
		if k >= len(args) {
			ufail("argument count mismatch calling %s", callee.Name())
		}
		env.vars[name] = SVal{T: args[k], Ty: goT(t)}
		env.vars[fmt.Sprintf("p%d", k)] = SVal{T: args[k], Ty: goT(t)}
		k++
	}
	if len(callee.Params) > 0 {
		for _, p := range callee.Params {
			bind(p.Name(), p.Type())
		}
	} else {
		sig := callee.Signature
		if sig.Recv() != nil {
			bind(sig.Recv().Name(), sig.Recv().Type())
		}
		for i := 0; i < sig.Params().Len(); i++ {
			bind(sig.Params().At(i).Name(), sig.Params().At(i).Type())
		}
	}
}

func bindResults(env *Env, callee *ssa.Function, results []Term) {
	rs := callee.Signature.Results()
	for i, r := range results {
		v := SVal{T: r, Ty: goT(rs.At(i).Type())}
		env.vars[fmt.Sprintf("result.%d", i)] = v
		if rs.At(i).Name() != "" && rs.At(i).Name() != "_" {
			if _, clash := env.vars[rs.At(i).Name()]; !clash {
				env.vars[rs.At(i).Name()] = v
			}
		}
		if len(results) == 1 {
			env.vars["result"] = v
		}
	}
}

func (x *Exec) setResult(instr ssa.Value, results []Term) {
	if instr == nil {
		return
	}
	switch len(results) {
	case 0:
	case 1:
		x.vals[instr] = results[0]
	default:
		x.tuples[instr] = results
	}
}

// regexPatternOf: the constant pattern of the package-level *regexp.Regexp the call's receiver was loaded from
func (x *Exec) regexPatternOf(c *ssa.CallCommon) (string, bool) {
	if c == nil || len(c.Args) == 0 {
		return "", false
	}
	u, ok := c.Args[0].(*ssa.UnOp)
	if !ok {
		return "", false
	}
	g, ok := u.X.(*ssa.Global)
	if !ok {
		return "", false
	}
	initFn := g.Pkg.Func("init")
	if initFn == nil {
		return "", false
	}
	for _, b := range initFn.Blocks {
		for _, in := range b.Instrs {
			st, ok := in.(*ssa.Store)
			if !ok || st.Addr != g {
				continue
			}
			call, ok := st.Val.(*ssa.Call)
			if !ok || len(call.Call.Args) != 1 {
				continue
			}
			if k, ok := call.Call.Args[0].(*ssa.Const); ok && k.Value != nil {
				return constant.StringVal(k.Value), true
			}
		}
	}
	return "", false
}

func (x *Exec) execCall(instr ssa.Value, c *ssa.CallCommon, st *State, pc Term) {
	x.curCall = c
	pos := x.posStr(c.Pos())
	if b, ok := c.Value.(*ssa.Builtin); ok {
		x.execBuiltin(instr, b, c, st, pc)
		return
	}
	if c.IsInvoke() {
		recv := x.val(c.Value)
		x.safety(st, pc, not(eq(recv, tNil)), "nil-interface-call", c.Pos())
		name := "(" + shortName(typeKey(c.Value.Type())) + ")." + c.Method.Name()
		args := []Term{recv}
		for _, a := range c.Args {
			args = append(args, x.operand(a, st))
		}
		x.applyExtern(instr, name, c.Signature().Results(), args, nil, st, pc, pos)
		return
	}
	var callee *ssa.Function
	var bindings []ssa.Value
	switch v := c.Value.(type) {
	case *ssa.Function:
		callee = v
	case *ssa.MakeClosure:
		callee = v.Fn.(*ssa.Function)
		bindings = v.Bindings
	}
	if callee == nil {
		// dynamic call through a function value
		x.execDynamicCall(instr, c, st, pc)
		return
	}
	callee = x.eng.unwrap(callee)
	var args []Term
	for _, b := range bindings {
		args = append(args, x.operand(b, st))
	}
	for _, a := range c.Args {
		args = append(args, x.argValue(a, callee, st))
	}
	if x.fc != nil && x.fc.CallAsserts != nil && callee.Pkg != nil {
		cas := append([]*Clause(nil), x.fc.CallAsserts[callee.RelString(callee.Pkg.Pkg)]...)
		cas = append(cas, x.fc.CallAsserts[calleeName(callee)]...)
		for _, ca := range cas {
			env := &Env{x: x, cur: st, old: x.entry, vars: map[string]SVal{}, pkg: x.pkg, fn: x.fn}
			for k, v := range x.params {
				env.vars[k] = v
			}
			bindParams(x, env, callee, args, st)
			goal := x.evalClause(env, ca)
			x.nsafety++
			x.vc.oblige(&Obligation{Name: fmt.Sprintf("%s#%d", ca.Name, x.nsafety), Kind: "call-assert", Tags: ca.Tags, Goal: goal, PC: pc, Src: ca.Src, Pos: pos, Observe: x.observations()})
		}
	}
	if fc := x.eng.contractFor(callee); fc != nil {
		if len(bindings) > 0 {
			ufail("call of closure with free variables and a contract at %s", pos)
		}
		res := x.applyContract(fc, callee, args, st, pc, pos)
		x.setResult(instr, res)
		return
	}
	if x.eng.externFor(calleeName(callee)) == nil && x.canInline(callee) {
		x.inlineCall(instr, callee, args, st, pc, pos)
		return
	}
	x.applyExtern(instr, calleeName(callee), callee.Signature.Results(), args, callee, st, pc, pos)
}

// canInline: a callee of the verified module that has neither a contract nor an extern line is executed in place when it is
// loop-free, does not defer, start goroutines or recover, and is not (mutually) recursive within the inlining depth. This keeps
// a refactoring that extracts a small helper from a function under contract decidable instead of UNDECIDED.
func (x *Exec) canInline(callee *ssa.Function) bool {
	if callee == nil || len(callee.Blocks) == 0 || callee.Pkg == nil || len(x.inlineStack) >= 4 {
		return false
	}
	if !strings.HasPrefix(callee.Pkg.Pkg.Path(), "github.com/gethiox/HIDI") {
		return false
	}
	for _, f := range x.inlineStack {
		if f == callee {
			return false
		}
	}
	if callee == x.fn {
		return false
	}
	for _, b := range callee.Blocks {
		for _, s := range b.Succs {
			if s.Dominates(b) {
				return false // loop
			}
		}
		for _, in := range b.Instrs {
			switch in.(type) {
			case *ssa.Defer, *ssa.Go, *ssa.Select:
				return false
			}
		}
	}
	return true
}

func (x *Exec) inlineCall(instr ssa.Value, callee *ssa.Function, args []Term, st *State, pc Term, pos string) {
	type saved struct {
		fn       *ssa.Function
		pkg      *types.Package
		exitSt   map[*ssa.BasicBlock]*State
		exitPC   map[*ssa.BasicBlock]Term
		edgeCond map[[2]*ssa.BasicBlock]Term
		loops    map[*ssa.BasicBlock]*loopInfo
		forced   map[*ssa.BasicBlock]*edgeState
		order    []*ssa.BasicBlock
		rets     []retPoint
		escapes  map[*ssa.Alloc]bool
		defers   []deferRec
		curCall  *ssa.CallCommon
		curBlock int
		rpOn     bool
	}
	sv := saved{x.fn, x.pkg, x.exitSt, x.exitPC, x.edgeCond, x.loops, x.forced, x.order, x.rets, x.escapes, x.defers, x.curCall, x.vc.curBlock, x.rpOn}
	x.fn, x.pkg = callee, callee.Pkg.Pkg
	x.exitSt, x.exitPC = map[*ssa.BasicBlock]*State{}, map[*ssa.BasicBlock]Term{}
	x.edgeCond = map[[2]*ssa.BasicBlock]Term{}
	x.forced = map[*ssa.BasicBlock]*edgeState{}
	x.rets, x.defers = nil, nil
	x.rpOn = false
	x.computeEscapes()
	for a, e := range sv.escapes {
		x.escapes[a] = e
	}
	anc := x.vc.anc
	x.computeOrder()
	x.vc.anc = anc // obligations and facts inside the callee stay attributed to the caller's block
	x.inlineStack = append(x.inlineStack, callee)
	k := 0
	for _, fv := range callee.FreeVars {
		x.vals[fv] = args[k]
		k++
	}
	for _, p := range callee.Params {
		x.vals[p] = args[k]
		k++
	}
	x.forced[callee.Blocks[0]] = &edgeState{cond: pc, st: st.clone()}
	for _, b := range x.order {
		x.execBlock(b)
	}
	rets := x.rets
	x.inlineStack = x.inlineStack[:len(x.inlineStack)-1]
	x.fn, x.pkg, x.exitSt, x.exitPC, x.edgeCond, x.loops, x.forced, x.order, x.rets, x.escapes, x.defers, x.curCall, x.rpOn = sv.fn, sv.pkg, sv.exitSt, sv.exitPC, sv.edgeCond, sv.loops, sv.forced, sv.order, sv.rets, sv.escapes, sv.defers, sv.curCall, sv.rpOn
	x.vc.curBlock = sv.curBlock
	x.dropped["call of "+calleeName(callee)+" at "+pos+": no contract - the body (loop-free) is executed in place"] = true
	if len(rets) == 0 {
		// the callee never returns (panics on every path): the rest of the caller's block is unreachable
		x.vc.assume(not(pc), "callee "+calleeName(callee)+" does not return")
		return
	}
	var edges []edgeState
	for _, r := range rets {
		edges = append(edges, edgeState{cond: r.pc, st: r.st})
	}
	merged := x.mergeStates(edges)
	*st = *merged
	var results []Term
	for i := range rets[0].results {
		r := rets[len(rets)-1].results[i]
		for j := len(rets) - 2; j >= 0; j-- {
			r = ite(rets[j].pc, rets[j].results[i], r)
		}
		results = append(results, x.vc.define("inl_result", r))
	}
	// a path of the callee that panics ends there: after the call one of the returning paths was taken
	var pcs []Term
	for _, r := range rets {
		pcs = append(pcs, r.pc)
	}
	x.vc.assume(implies(pc, or(pcs...)), "after the call of "+calleeName(callee)+" one of its returning paths was taken")
	x.setResult(instr, results)
}

// argValue: arguments that are addresses passed to value-semantics externs are passed by pointee value.
func (x *Exec) argValue(a ssa.Value, callee *ssa.Function, st *State) Term {
	if x.eng.contractFor(callee) == nil {
		ex := x.eng.externFor(calleeName(callee))
		if ex != nil && (ex.Kind == "fn" || ex.Kind == "log" || ex.Kind == "havoc") {
			switch a.(type) {
			case *ssa.FieldAddr, *ssa.IndexAddr:
				return x.loadAddr(st, x.resolveAddr(a))
			case *ssa.Alloc:
				if !x.escapes[a.(*ssa.Alloc)] {
					return x.loadAddr(st, x.resolveAddr(a))
				}
			}
			if ex.Kind == "fn" {
				// pointer-to-struct argument: a mathematical function of the pointee value
				if pt, ok := a.Type().Underlying().(*types.Pointer); ok {
					if _, isStruct := pt.Elem().Underlying().(*types.Struct); isStruct {
						return x.loadAddr(st, x.ptrAddr(x.operand(a, st), pt.Elem()))
					}
				}
			}
		}
	}
	return x.operand(a, st)
}

func (x *Exec) applyExtern(instr ssa.Value, name string, rs *types.Tuple, args []Term, callee *ssa.Function, st *State, pc Term, pos string) {
	ex := x.eng.externFor(name)
	if ex == nil {
		ufail("call to %s at %s: no contract and no extern declaration", name, pos)
	}
	x.assumedExterns[fmt.Sprintf("extern %s %s", ex.Name, ex.Kind)] = true
	if ex.Pattern != "" {
		got, ok := x.regexPatternOf(x.curCall)
		if !ok || got != ex.Pattern {
			ufail("regexp at %s: the assumed contract of %s was written for pattern %q but the code uses %q", pos, name, ex.Pattern, got)
		}
	}
	if ex.MayPanic {
		goal := tFalse
		if hasDeferredRecover(x.fn, x.curCall) {
			goal = tTrue
		}
		x.nsafety++
		x.vc.oblige(&Obligation{Name: fmt.Sprintf("%s.call(%s).panic-contained#%d", x.fnName(), name, x.nsafety), Kind: "panic-containment", Tags: ex.PanicTags,
			Goal: goal, PC: pc, Src: name + " may panic on some inputs: the calling function installs a deferred recover before the call", Pos: pos})
	}
	var results []Term
	switch ex.Kind {
	case "havoc", "log":
		for i := 0; i < rs.Len(); i++ {
			results = append(results, x.vc.fresh("ext_"+lastSeg(name), x.w.sortOf(rs.At(i).Type())))
		}
	case "fn":
		var as []Sort
		var ss []string
		for _, a := range args {
			as = append(as, a.Sort)
			ss = append(ss, a.S)
		}
		for i := 0; i < rs.Len(); i++ {
			rsort := x.w.sortOf(rs.At(i).Type())
			uf := fmt.Sprintf("uf_%s_%d", sanitize(name), i)
			for _, a := range as {
				uf += "_" + sortID(a)
			}
			x.w.declareUF(uf, as, rsort)
			if len(args) == 0 {
				results = append(results, T(rsort, "%s", uf))
			} else {
				results = append(results, x.vc.define("ext_"+lastSeg(name), T(rsort, "(%s %s)", uf, strings.Join(ss, " "))))
			}
		}
	case "calls:0", "calls:1", "calls:2":
		// the extern invokes its function-valued argument any number of times: its frame is havocked
		k := int(ex.Kind[len(ex.Kind)-1] - '0')
		if k >= len(args) {
			ufail("extern %s: no argument %d", name, k)
		}
		mc, ok := x.closures[args[k].S]
		var cbFn *ssa.Function
		var cbArgs []Term
		if ok {
			cbFn = mc.Fn.(*ssa.Function)
			for _, b := range mc.Bindings {
				cbArgs = append(cbArgs, x.operand(b, st))
			}
		} else {
			for key, c := range x.w.fnConst {
				if c == args[k].S {
					cbFn = x.eng.funcs[key]
				}
			}
		}
		if cbFn == nil {
			ufail("extern %s at %s: callback argument is not a known closure", name, pos)
		}
		cfc := x.eng.contractFor(cbFn)
		if cfc == nil {
			ufail("extern %s at %s: callback %s has no contract", name, pos, cbFn.Name())
		}
		env := &Env{x: x, cur: st, old: st, vars: map[string]SVal{}, pkg: cbFn.Pkg.Pkg}
		for i, fv := range cbFn.FreeVars {
			env.vars[fv.Name()] = SVal{T: cbArgs[i], Ty: goT(fv.Type())}
		}
		for _, p := range cbFn.Params {
			env.vars[p.Name()] = SVal{T: x.vc.fresh("cb_"+p.Name(), x.w.sortOf(p.Type())), Ty: goT(p.Type())}
		}
		pre := st.clone()
		env.cur, env.old = pre, pre
		fr := x.evalModifies(cfc, env)
		x.havocFrame(st, fr, name)
		for _, cl := range cfc.Walkrels {
			renv := &Env{x: x, cur: st, old: pre, vars: map[string]SVal{}, pkg: cbFn.Pkg.Pkg}
			x.vc.assume(implies(pc, x.evalClause(renv, cl)), "walk relation "+cl.Name+" of the callback, over the whole walk")
		}
		x.cbPred = ""
		if cfc.Walkpost != nil {
			x.cbPred = cfc.Walkpost.Pred
			x.trusted["extern "+name+": summarised by the per-entry postcondition "+cfc.Walkpost.Pred+" of its callback (the callback establishes it for its own entry and provably keeps it for every other entry; that the walk calls it once per entry and returns nil only if every call did is the documented behaviour, assumed)"] = true
		}
		defer func() { x.cbPred = "" }()
		for i := 0; i < rs.Len(); i++ {
			results = append(results, x.vc.fresh("ext_"+lastSeg(name), x.w.sortOf(rs.At(i).Type())))
		}
		x.trusted["extern "+name+" calls its callback "+cbFn.Name()+" only with arguments satisfying the callback's precondition (documented calling convention), any number of times"] = true
	case "decode:0", "decode:1", "decode:2":
		// writes an arbitrary value of the pointee type through the (boxed) pointer argument
		k := int(ex.Kind[len(ex.Kind)-1] - '0')
		if k >= len(args) {
			ufail("extern %s: no argument %d", name, k)
		}
		bv, ok := x.boxOf[args[k].S]
		var ptr Term
		var pt *types.Pointer
		if ok {
			ptr = bv.T
			pt, _ = bv.Ty.Underlying().(*types.Pointer)
		}
		if pt == nil {
			ufail("extern %s at %s: argument %d is not a boxed pointer", name, pos, k)
		}
		x.deepHavoc(st, ptr, pt.Elem(), map[string]bool{})
		for i := 0; i < rs.Len(); i++ {
			results = append(results, x.vc.fresh("ext_"+lastSeg(name), x.w.sortOf(rs.At(i).Type())))
		}
	case "noreturn":
		x.vc.assume(not(pc), "call to "+name+" does not return")
	default:
		ufail("extern %s has unknown kind %s", name, ex.Kind)
	}
	if len(ex.Ensures) > 0 || len(ex.Requires) > 0 || len(ex.Modifies) > 0 {
		env := &Env{x: x, cur: st, old: st, vars: map[string]SVal{}, pkg: x.pkg}
		if callee != nil {
			env.pkg = callee.Pkg.Pkg
			if len(callee.Params) > 0 || callee.Signature.Params().Len()+boolInt(callee.Signature.Recv() != nil) == len(args) {
				func() {
					defer func() { recover() }()
					bindParams(x, env, callee, args, st)
				}()
			}
		}
		for i, a := range args {
			if _, ok := env.vars[fmt.Sprintf("p%d", i)]; !ok {
				env.vars[fmt.Sprintf("p%d", i)] = SVal{T: a, Ty: x.guessType(a)}
			}
		}
		for i, r := range results {
			v := SVal{T: r, Ty: goT(rs.At(i).Type())}
			env.vars[fmt.Sprintf("result.%d", i)] = v
			if len(results) == 1 {
				env.vars["result"] = v
			}
		}
		for _, c := range ex.Requires {
			goal := x.evalClause(env, c)
			x.nsafety++
			x.vc.oblige(&Obligation{Name: fmt.Sprintf("%s.call(%s).requires#%d", x.fnName(), name, x.nsafety), Kind: "requires-at-call", Tags: c.Tags, Goal: goal, PC: pc, Src: c.Src, Pos: pos, Observe: x.observations()})
		}
		if name == "(*sync.Mutex).Unlock" {
			x.lockRelease(st, pc, pos)
		}
		if len(ex.Modifies) > 0 {
			pre := st.clone()
			env.cur, env.old = pre, pre
			var fr []frameEntry
			for _, m := range ex.Modifies {
				fr = append(fr, x.frameOf(m, env)...)
			}
			x.havocFrame(st, fr, name)
			env.cur = st
		}
		for _, c := range ex.Ensures {
			x.vc.assume(implies(pc, x.evalClause(env, c)), "assumed contract of "+name)
		}
		if name == "(*sync.Mutex).Lock" {
			x.lockAcquire(st, pc, pos)
		}
	}
	x.setResult(instr, results)
}

// ghostState: a copy of st in which every declared ghost variable has a fresh arbitrary value
func (x *Exec) ghostState(st *State, tag string) *State {
	n := st.clone()
	for _, gd := range x.eng.cf.Ghosts {
		ty := x.resolveType(gd.Type, x.pkg)
		n.ghosts[gd.Name] = x.vc.fresh("G_"+gd.Name+"_"+tag, x.w.sortOfS(ty))
	}
	return n
}

// walkrelObligations: each `walkrel` is used at the call of the walking extern as the relation between the state before and
// after ANY number of callback calls; that is sound only if it is reflexive and transitive - checked here over three
// arbitrary ghost states (the heap is the same in all three: a walkrel may only relate ghost state).
func (x *Exec) walkrelObligations(penv *Env) {
	a, b, c := x.ghostState(x.entry, "A"), x.ghostState(x.entry, "B"), x.ghostState(x.entry, "C")
	rel := func(cl *Clause, from, to *State) Term {
		// no parameters, no lets in scope: a walk relation must not depend on one particular call
		env := &Env{x: x, cur: to, old: from, vars: map[string]SVal{}, pkg: x.pkg}
		return x.evalClause(env, cl)
	}
	for _, cl := range x.fc.Walkrels {
		x.vc.oblige(&Obligation{Name: cl.Name + ".reflexive", Kind: "walk-relation", Tags: cl.Tags, Goal: rel(cl, a, a), PC: tTrue, Src: "reflexive: " + cl.Src})
		x.vc.oblige(&Obligation{Name: cl.Name + ".transitive", Kind: "walk-relation", Tags: cl.Tags, Goal: implies(and(rel(cl, a, b), rel(cl, b, c)), rel(cl, a, c)), PC: tTrue, Src: "transitive: " + cl.Src})
	}
}

// ---- goroutine life cycle (C16, first sentence): necessary conditions of "ends promptly and leaves nothing behind"
// that are safety properties of one thread. If the ghosts below are declared:
//   spawnedCtx set[Ref]  contexts handed to goroutines started by this function   (go statement, by argument type)
//   wgSpawned int        goroutines started with a *sync.WaitGroup argument        (go statement)
// and the externs maintain cancelled / wgAdded / wgDone, then `(*sync.WaitGroup).Wait` can require that every started
// goroutine was told to stop and is being waited for.

type deferRec struct {
	call   *ssa.CallCommon
	name   string
	rs     *types.Tuple
	args   []Term
	callee *ssa.Function
	pos    string
}

func (x *Exec) execGo(i *ssa.Go, st *State, pc Term) {
	callee := i.Call.StaticCallee()
	var args []Term
	for _, a := range i.Call.Args {
		args = append(args, x.operand(a, st))
	}
	for k, a := range i.Call.Args {
		switch typeKey(a.Type()) {
		case "context.Context":
			if x.eng.ghostDecl("spawnedCtx") != nil {
				st.ghosts["spawnedCtx"] = x.vc.define("g_spawnedCtx", sto(x.ghostGet(st, "spawnedCtx"), args[k], tTrue))
			}
		case "*sync.WaitGroup":
			if x.eng.ghostDecl("wgSpawned") != nil {
				st.ghosts["wgSpawned"] = x.vc.define("g_wgSpawned", bvadd64(x.ghostGet(st, "wgSpawned"), bvInt(64, 1)))
			}
		}
	}
	if callee == nil {
		return
	}
	fc := x.eng.contractFor(x.eng.unwrap(callee))
	if fc == nil {
		return
	}
	// the new goroutine starts without any lock: its preconditions are checked in this state with an empty lock set
	pre := st.clone()
	if x.eng.ghostDecl("locked") != nil {
		pre.ghosts["locked"] = constArray(arraySort(SRef, SBool), tFalse)
	}
	if x.eng.ghostDecl("concurrent") != nil {
		pre.ghosts["concurrent"] = tTrue
	}
	env := &Env{x: x, cur: pre, old: pre, vars: map[string]SVal{}, pkg: callee.Pkg.Pkg}
	bindParams(x, env, callee, args, pre)
	for _, l := range fc.Lets {
		env.vars[l.Name] = env.concrete(env.eval(l.E))
	}
	for _, c := range fc.Requires {
		goal := x.evalClause(env, c)
		x.nsafety++
		x.vc.oblige(&Obligation{Name: fmt.Sprintf("%s.go(%s).%s#%d", x.fnName(), fc.Name, c.Name[strings.LastIndex(c.Name, ".")+1:], x.nsafety),
			Kind: "requires-at-go", Tags: c.Tags, Goal: goal, PC: pc, Src: c.Src, Pos: x.posStr(i.Pos()), Observe: x.observations()})
	}
}

// recordDefer: a deferred call of an extern in the entry block is applied when the function returns
func (x *Exec) recordDefer(i *ssa.Defer, st *State, pc Term) bool {
	if i.Block().Index != 0 || i.Call.IsInvoke() {
		return false
	}
	callee := i.Call.StaticCallee()
	if callee == nil || x.eng.contractFor(callee) != nil {
		return false
	}
	name := calleeName(callee)
	ex := x.eng.externFor(name)
	if ex == nil || (len(ex.Ensures) == 0 && len(ex.Modifies) == 0 && len(ex.Requires) == 0) {
		return false
	}
	var args []Term
	for _, a := range i.Call.Args {
		args = append(args, x.operand(a, st))
	}
	x.defers = append(x.defers, deferRec{&i.Call, name, callee.Signature.Results(), args, callee, x.posStr(i.Pos())})
	return true
}

func (x *Exec) runDefers(st *State, pc Term) {
	for k := len(x.defers) - 1; k >= 0; k-- {
		d := x.defers[k]
		x.curCall = d.call
		x.applyExtern(nil, d.name, d.rs, d.args, d.callee, st, pc, d.pos)
	}
}

// hasDeferredRecover: the entry block defers, BEFORE the given call, a function (named or literal) whose body calls the
// builtin recover directly
func hasDeferredRecover(fn *ssa.Function, before *ssa.CallCommon) bool {
	if fn == nil || len(fn.Blocks) == 0 {
		return false
	}
	for _, ins := range fn.Blocks[0].Instrs {
		if ci, ok := ins.(ssa.CallInstruction); ok && before != nil && ci.Common() == before {
			return false // the call is reached before any recover was installed
		}
		d, ok := ins.(*ssa.Defer)
		if !ok {
			continue
		}
		var callee *ssa.Function
		switch v := d.Call.Value.(type) {
		case *ssa.Function:
			callee = v
		case *ssa.MakeClosure:
			callee, _ = v.Fn.(*ssa.Function)
		}
		if callee == nil {
			continue
		}
		for _, b := range callee.Blocks {
			for _, in := range b.Instrs {
				if c, ok := in.(*ssa.Call); ok {
					if bi, ok := c.Call.Value.(*ssa.Builtin); ok && bi.Name() == "recover" {
						return true
					}
				}
			}
		}
	}
	return false
}

// lockOwner: the call's receiver is the mutex held in field MUTEX of a named struct for which a `lockinv` is declared
func (x *Exec) lockOwner() (*LockInv, ssa.Value, *types.Pointer) {
	c := x.curCall
	if c == nil || len(c.Args) == 0 {
		return nil, nil, nil
	}
	base, sn, f, ok := guardedBase(c.Args[0])
	if !ok {
		return nil, nil, nil
	}
	if _, isLookup := c.Args[0].(*ssa.Lookup); isLookup {
		return nil, nil, nil
	}
	for _, li := range x.eng.cf.LockInvs {
		if li.Struct == sn && li.Mutex == f {
			return li, base, base.Type().Underlying().(*types.Pointer)
		}
	}
	return nil, nil, nil
}

// lockAcquire: other goroutines may have run critical sections of this mutex: every field it guards takes an arbitrary value
// (for a reference: not one of the objects this function allocated itself), then the monitor invariant is assumed.
// Objects REACHABLE from those fields keep their contents (listed as an assumption).
func (x *Exec) lockAcquire(st *State, pc Term, pos string) {
	li, base, pt := x.lockOwner()
	if li == nil {
		return
	}
	if rd := x.eng.cf.LockReaders[li.Struct+"."+li.Mutex]; rd != nil && (x.fc == nil || !rd[x.fc.Pkg+"#"+x.fc.Name]) {
		// single-writer mutex: this function belongs to the writer thread, the other users only read: nothing changes at Lock
		x.trusted["lockreaders "+li.Struct+"."+li.Mutex+": the functions under contract that write the fields it guards all run on ONE goroutine (the event thread; every write is proved to hold the mutex, the declared readers are proved not to write); for that thread Lock changes nothing"] = true
		return
	}
	stt := pt.Elem().Underlying().(*types.Struct)
	conc := x.ghostGet(st, "concurrent")
	bv := x.val(base)
	for _, g := range x.eng.cf.Guarded {
		if g.Struct != li.Struct || g.Mutex != li.Mutex {
			continue
		}
		var fs []string
		for f := range g.Fields {
			fs = append(fs, f)
		}
		sort.Strings(fs)
		for _, f := range fs {
			fi := fieldIndex(stt, f)
			if fi < 0 {
				ufail("lockinv: %s has no field %s", li.Struct, f)
			}
			hn, hs := x.fieldHeap(pt.Elem(), fi)
			h := x.heapGet(st, hn, hs)
			old := sel(h, bv)
			nv := x.vc.fresh("acq_"+f, old.Sort)
			if old.Sort == SRef {
				as := arraySort(SRef, SBool)
				al := x.heapGet(st, allocHeap, as)
				al0 := x.heapGet(x.entry, allocHeap, as)
				x.vc.assume(implies(sel(al, nv), sel(al0, nv)), "a handle published by another goroutine is not an object allocated here")
				x.heapSet(st, allocHeap, sto(al, nv, or(sel(al, nv), not(eq(nv, tNil)))))
			}
			x.heapSet(st, hn, sto(h, bv, ite(conc, nv, old)))
		}
	}
	env := x.newEnv(st, x.entry)
	env.vars[li.Var] = SVal{T: bv, Ty: goT(base.Type())}
	x.vc.assume(implies(and(pc, conc), x.evalClause(env, li.C)), "monitor invariant of "+li.Struct+"."+li.Mutex+" at Lock")
	x.trusted["acquire of "+li.Struct+"."+li.Mutex+": fields guarded by it become arbitrary (monitor invariant assumed); objects reachable from them are NOT havocked"] = true
}

// lockRelease: the monitor invariant is an obligation at Unlock
func (x *Exec) lockRelease(st *State, pc Term, pos string) {
	li, base, _ := x.lockOwner()
	if li == nil {
		return
	}
	env := x.newEnv(st, x.entry)
	env.vars[li.Var] = SVal{T: x.val(base), Ty: goT(base.Type())}
	goal := x.evalClause(env, li.C)
	x.nsafety++
	x.vc.oblige(&Obligation{Name: fmt.Sprintf("%s.%s.at-unlock#%d", x.fnName(), li.C.Name, x.nsafety), Kind: "lock-invariant", Tags: li.C.Tags, Goal: goal, PC: pc, Src: li.C.Src, Pos: pos, Observe: x.observations()})
}

// deepHavoc: the object at ptr (of type t) and everything reachable from it by type becomes arbitrary.
func (x *Exec) deepHavoc(st *State, ptr Term, t types.Type, seen map[string]bool) {
	a := x.ptrAddr(ptr, t)
	x.storeAddr(st, a, x.vc.fresh("decoded", x.w.sortOf(t)))
	x.havocReachable(st, t, seen)
}

func (x *Exec) havocReachable(st *State, t types.Type, seen map[string]bool) {
	key := canonType(t)
	if seen[key] {
		return
	}
	seen[key] = true
	switch u := t.Underlying().(type) {
	case *types.Struct:
		for i := 0; i < u.NumFields(); i++ {
			x.havocReachable(st, u.Field(i).Type(), seen)
		}
	case *types.Slice:
		hn, hs := x.sliceHeap(u.Elem())
		x.heapInit(hn, hs)
		st.heaps[hn] = x.vc.fresh(heapSym(hn)+"_dec", hs)
		x.writeLog = append(x.writeLog, heapWrite{hn, "*"})
		x.havocReachable(st, u.Elem(), seen)
	case *types.Array:
		x.havocReachable(st, u.Elem(), seen)
	case *types.Map:
		mv, mp, mvS, mpS, _, _ := x.mapHeaps(u)
		x.heapInit(mv, mvS)
		x.heapInit(mp, mpS)
		st.heaps[mv] = x.vc.fresh(heapSym(mv)+"_dec", mvS)
		nmp := x.vc.fresh(heapSym(mp)+"_dec", mpS)
		_, inner := mpS.arrayParts()
		x.vc.assume(eq(sel(nmp, tNil), constArray(inner, tFalse)), "nil map is empty")
		st.heaps[mp] = nmp
		x.havocReachable(st, u.Key(), seen)
		x.havocReachable(st, u.Elem(), seen)
	case *types.Pointer:
		if _, isStruct := u.Elem().Underlying().(*types.Struct); isStruct {
			stt := u.Elem().Underlying().(*types.Struct)
			for i := 0; i < stt.NumFields(); i++ {
				hn, hs := x.fieldHeap(u.Elem(), i)
				x.heapInit(hn, hs)
				st.heaps[hn] = x.vc.fresh(heapSym(hn)+"_dec", hs)
			}
		} else {
			hn, hs := x.ptrHeap(u.Elem())
			x.heapInit(hn, hs)
			st.heaps[hn] = x.vc.fresh(heapSym(hn)+"_dec", hs)
		}
		x.havocReachable(st, u.Elem(), seen)
	}
}

func boolInt(b bool) int {
	if b {
		return 1
	}
	return 0
}

func (x *Exec) guessType(t Term) *SType {
	switch {
	case t.Sort == SBool:
		return stBool
	case t.Sort == SStr:
		return goT(types.Typ[types.String])
	case t.Sort == SBV(64):
		return stInt
	case t.Sort == SBV(8):
		return goT(types.Typ[types.Uint8])
	case t.Sort == SF64:
		return goT(types.Typ[types.Float64])
	case t.Sort == SSlice:
		return goT(types.NewSlice(types.Typ[types.Uint8]))
	}
	return goT(types.Typ[types.UnsafePointer])
}

func (x *Exec) execDynamicCall(instr ssa.Value, c *ssa.CallCommon, st *State, pc Term) {
	pos := x.posStr(c.Pos())
	f := x.val(c.Value)
	if mc, ok := x.closures[f.S]; ok {
		callee := mc.Fn.(*ssa.Function)
		var args []Term
		for _, b := range mc.Bindings {
			args = append(args, x.operand(b, st))
		}
		for _, a := range c.Args {
			args = append(args, x.operand(a, st))
		}
		if fc := x.eng.contractFor(callee); fc != nil {
			x.setResult(instr, x.applyContractClosure(fc, callee, args, st, pc, pos))
			return
		}
		ufail("call of closure %s without contract at %s", callee.Name(), pos)
	}
	sig := c.Signature()
	var args []Term
	for _, a := range c.Args {
		args = append(args, x.operand(a, st))
	}
	// function values of an externally declared function type (e.g. context.CancelFunc)
	if nt, ok := c.Value.Type().(*types.Named); ok {
		name := "dyn:" + canonType(nt)
		if x.eng.externFor(name) != nil {
			// p0 is the function value itself, p1.. are the arguments
			x.applyExtern(instr, name, sig.Results(), append([]Term{f}, args...), nil, st, pc, pos)
			return
		}
	}
	// candidates: every contract function with an identical signature
	type cand struct {
		fn *ssa.Function
		fc *FuncContract
	}
	var cands []cand
	for _, key := range x.eng.cf.FuncOrder {
		fc := x.eng.cf.Funcs[key]
		fn := x.eng.funcs[key]
		if fn == nil {
			continue
		}
		fs := fn.Signature
		// method expressions: receiver becomes first parameter
		var ptypes []types.Type
		if fs.Recv() != nil {
			ptypes = append(ptypes, fs.Recv().Type())
		}
		for i := 0; i < fs.Params().Len(); i++ {
			ptypes = append(ptypes, fs.Params().At(i).Type())
		}
		if len(ptypes) != sig.Params().Len() || fs.Results().Len() != sig.Results().Len() {
			continue
		}
		same := true
		for i := range ptypes {
			if !types.Identical(ptypes[i], sig.Params().At(i).Type()) {
				same = false
			}
		}
		for i := 0; i < fs.Results().Len(); i++ {
			if !types.Identical(fs.Results().At(i).Type(), sig.Results().At(i).Type()) {
				same = false
			}
		}
		if same {
			cands = append(cands, cand{fn, fc})
		}
	}
	if len(cands) == 0 {
		ufail("dynamic call at %s: no candidate function with a contract", pos)
	}
	var isOne []Term
	for _, cd := range cands {
		isOne = append(isOne, eq(f, x.w.fnLit(x.eng.canonFn(cd.fn))))
	}
	x.nsafety++
	x.vc.oblige(&Obligation{Name: fmt.Sprintf("%s.dyncall-target#%d", x.fnName(), x.nsafety), Kind: "dynamic-call-target", Goal: or(isOne...), PC: pc,
		Src: "function value is one of the functions under contract", Pos: pos, Observe: x.observations()})
	x.vc.assume(implies(pc, or(isOne...)), "dynamic call target known")
	var edges []edgeState
	var resSets [][]Term
	for k, cd := range cands {
		bst := st.clone()
		bpc := x.vc.define("dpc", and(pc, isOne[k]))
		res := x.applyContract(cd.fc, cd.fn, args, bst, bpc, pos)
		edges = append(edges, edgeState{cond: isOne[k], st: bst})
		resSets = append(resSets, res)
	}
	merged := x.mergeStates(edges)
	*st = *merged
	if len(resSets[0]) > 0 {
		var results []Term
		for i := range resSets[0] {
			r := resSets[len(resSets)-1][i]
			for k := len(resSets) - 2; k >= 0; k-- {
				r = ite(isOne[k], resSets[k][i], r)
			}
			results = append(results, r)
		}
		x.setResult(instr, results)
	}
}

// closures with free variables: the contract names free variables like parameters (pointer-typed cells)
func (x *Exec) applyContractClosure(fc *FuncContract, callee *ssa.Function, args []Term, st *State, pc Term, pos string) []Term {
	return x.applyContract(fc, callee, args, st, pc, pos)
}

func (x *Exec) execBuiltin(instr ssa.Value, b *ssa.Builtin, c *ssa.CallCommon, st *State, pc Term) {
	switch b.Name() {
	case "len", "cap":
		a := c.Args[0]
		v := x.val(a)
		switch u := a.Type().Underlying().(type) {
		case *types.Slice:
			x.sliceInv(v)
			if b.Name() == "len" {
				x.vals[instr] = sliceLen(v)
			} else {
				x.vals[instr] = sliceCap(v)
			}
		case *types.Basic:
			x.vals[instr] = T(SBV(64), "(slen %s)", v.S)
		case *types.Map:
			_, mp, _, mpS, ks, _ := x.mapHeaps(u)
			x.vals[instr] = x.vc.define("len", x.card(sel(x.heapGet(st, mp, mpS), v), ks))
		case *types.Chan:
			x.vals[instr] = x.vc.fresh("chanlen", SBV(64))
		default:
			ufail("len of %s", a.Type())
		}
	case "delete":
		if bs, sn, f, ok := guardedBase(c.Args[0]); ok {
			x.guardedWrite(bs, sn, f, st, pc, c.Pos())
		}
		mt := c.Args[0].Type().Underlying().(*types.Map)
		x.siteAssertsAt("mapdelete", mt, x.val(c.Args[0]), x.val(c.Args[1]), nil, st, pc, c.Pos())
		if x.rpOn {
			if mp := x.valPath(c.Args[0], 0); mp != nil && basicName(mt.Key()) != "" {
				kt := x.val(c.Args[1])
				x.rpEmit("delete", mp.with(rpSeg{KT: basicName(mt.Key()), t: &kt}), tTrue, "bool", pc)
			}
		}
		x.mapDelete(st, mt, x.val(c.Args[0]), x.val(c.Args[1]))
	case "append":
		sl := x.val(c.Args[0])
		et := c.Args[0].Type().Underlying().(*types.Slice).Elem()
		hn, hs := x.sliceHeap(et)
		h := x.heapGet(st, hn, hs)
		// result: fresh backing array holding old contents followed by the appended elements
		r := x.allocRef(st, "append")
		oldArr := sel(h, sliceRef(sl))
		off := sliceOff(sl)
		ln := sliceLen(sl)
		newArr := x.vc.fresh("appended", arraySort(SBV(64), x.w.sortOf(et)))
		x.qn++
		iq := fmt.Sprintf("i!q%d", x.qn)
		x.vc.assume(T(SBool, "(forall ((%s (_ BitVec 64))) (! (=> (bvult %s %s) (= (select %s %s) (select %s (bvadd %s %s)))) :pattern ((select %s %s))))",
			iq, iq, ln.S, newArr.S, iq, oldArr.S, off.S, iq, newArr.S, iq), "append keeps the prefix")
		var addLen Term
		if len(c.Args) == 2 {
			if _, isStr := c.Args[1].Type().Underlying().(*types.Basic); isStr {
				ufail("append(bytes, string...)")
			}
			more := x.val(c.Args[1])
			addLen = sliceLen(more)
			moreArr := sel(x.heapGet(st, hn, hs), sliceRef(more))
			x.qn++
			jq := fmt.Sprintf("j!q%d", x.qn)
			x.vc.assume(T(SBool, "(forall ((%s (_ BitVec 64))) (! (=> (bvult %s %s) (= (select %s (bvadd %s %s)) (select %s (bvadd %s %s)))) :pattern ((select %s (bvadd %s %s)))))",
				jq, jq, addLen.S, newArr.S, ln.S, jq, moreArr.S, sliceOff(more).S, jq, newArr.S, ln.S, jq), "append copies the new elements")
			// common case: a single appended element (varargs slice of length 1)
			x.vc.assume(implies(T(SBool, "(bvugt %s (_ bv0 64))", addLen.S), eq(sel(newArr, ln), sel(moreArr, sliceOff(more)))), "append first new element")
		} else {
			addLen = bvInt(64, 0)
		}
		nl := x.vc.define("applen", T(SBV(64), "(bvadd %s %s)", ln.S, addLen.S))
		x.vc.assume(T(SBool, "(bvule %s (_ bv4611686018427387904 64))", ln.S), "slice length is below 2^62")
		x.vc.assume(T(SBool, "(bvule %s (_ bv4611686018427387904 64))", addLen.S), "slice length is below 2^62")
		x.heapSet(st, hn, sto(x.heapGet(st, hn, hs), r, newArr))
		cp := x.vc.fresh("appcap", SBV(64))
		x.vc.assume(T(SBool, "(bvuge %s %s)", cp.S, nl.S), "append capacity")
		x.vals[instr] = mkSlice(r, bvInt(64, 0), nl, cp)
	case "ssa:deferstack":
		x.vals[instr] = tNil
	case "close", "print", "println":
	case "copy":
		ufail("builtin copy")
	default:
		ufail("builtin %s", b.Name())
	}
}

func (x *Exec) execSelect(i *ssa.Select, st *State, pc Term) {
	n := int64(len(i.States))
	idx := x.vc.fresh("select_idx", SBV(64))
	lo := int64(0)
	if !i.Blocking {
		lo = -1
	}
	x.vc.assume(implies(pc, T(SBool, "(and (bvsge %s %s) (bvslt %s %s))", idx.S, bvInt(64, lo).S, idx.S, bvInt(64, n).S)), "select picks one of its cases")
	tup := []Term{idx, x.vc.fresh("select_ok", SBool)}
	for _, s := range i.States {
		if s.Dir == types.RecvOnly {
			et := s.Chan.Type().Underlying().(*types.Chan).Elem()
			v := x.vc.fresh("select_recv", x.w.sortOf(et))
			tup = append(tup, v)
			x.recvEnv(v, et, pc, st)
		}
	}
	x.tuples[i] = tup
	x.dropped["select at "+x.posStr(i.Pos())+": modelled as a nondeterministic choice with unconstrained received values; blocking not modelled"] = true
}

func (x *Exec) recvEnvG(v Term, t types.Type, guard Term, st *State) {
	g := x.vc.define("recvguard", guard)
	x.recvEnv(v, t, g, st)
}

// recvEnv applies the function's `assume env` clauses to a received value (bound as `recv`).
func (x *Exec) recvEnv(v Term, t types.Type, pc Term, st *State) {
	if x.fc == nil {
		return
	}
	for _, c := range x.fc.EnvAssume {
		env := x.newEnv(st, x.entry)
		env.vars["recv"] = SVal{T: v, Ty: goT(t)}
		ok := true
		var tm Term
		func() {
			defer func() {
				if r := recover(); r != nil {
					if _, isSpec := r.(specError); isSpec {
						ok = false
						return
					}
					panic(r)
				}
			}()
			tm = x.evalClause(env, c)
		}()
		if ok {
			x.vc.assume(implies(pc, tm), "environment assumption on received value")
			x.trusted["environment assumption: "+c.Src] = true
		}
	}
}

// ---- function-level driver

func (x *Exec) verify() {
	fn := x.fn
	x.rpOn = x.rpReplayable(fn)
	x.computeEscapes()
	x.computeOrder()
	x.entry = newState()
	x.params = map[string]SVal{}
	x.lets = map[string]SVal{}
	as := arraySort(SRef, SBool)
	alloc0 := x.heapInit(allocHeap, as)
	addParam := func(name string, t types.Type, v ssa.Value) {
		s := x.w.sortOf(t)
		c := x.vc.named("p_"+sanitize(name), s)
		x.vals[v] = c
		x.params[name] = SVal{T: c, Ty: goT(t)}
		if s == SRef {
			x.vc.assume(or(eq(c, tNil), sel(alloc0, c)), "parameter refers to an allocated object")
			x.paramRefs = append(x.paramRefs, c)
		}
		if s == SSlice {
			x.vc.assume(or(eq(sliceRef(c), tNil), sel(alloc0, sliceRef(c))), "parameter slice refers to an allocated backing array")
			x.paramRefs = append(x.paramRefs, sliceRef(c))
			x.sliceInv(c)
		}
		x.observe = append(x.observe, Observation{Label: "param " + name, T: c})
	}
	for _, p := range fn.Params {
		addParam(p.Name(), p.Type(), p)
	}
	for _, fv := range fn.FreeVars {
		addParam(fv.Name(), fv.Type(), fv)
	}
	for _, ax := range x.eng.cf.Axioms {
		if ax.Kind == "axiom:"+fn.Pkg.Pkg.Path() {
			env := &Env{x: x, cur: x.entry, old: x.entry, vars: map[string]SVal{}, pkg: x.pkg}
			x.vc.assume(x.evalClause(env, ax), "axiom "+ax.Name)
			x.trusted["axiom "+ax.Name+": "+ax.Src] = true
		}
	}
	if x.fc != nil {
		env := x.newEnv(x.entry, x.entry)
		for _, l := range x.fc.Lets {
			v := env.concrete(env.eval(l.E))
			x.lets[l.Name] = v
			env.vars[l.Name] = v
		}
		for _, c := range x.fc.Requires {
			x.vc.assume(x.evalClause(env, c), "precondition "+c.Name)
		}
		if len(x.fc.Walkrels) > 0 {
			x.walkrelObligations(env)
		}
		if len(x.fc.GhostEntry) > 0 {
			// ghost code at function entry (the body then runs from the updated ghost state; `old` is the state before)
			x.start = x.entry.clone()
			genv := x.newEnv(x.entry, x.entry)
			for k, v := range env.vars {
				genv.vars[k] = v
			}
			for _, ga := range x.fc.GhostEntry {
				gd := x.eng.ghostDecl(ga.Name)
				if gd == nil {
					sfail("ghost entry assigns unknown ghost %s", ga.Name)
				}
				ty := x.resolveType(gd.Type, x.pkg)
				x.start.ghosts[ga.Name] = genv.coerce(genv.eval(ga.E), ty).T
			}
		}
	}
	if x.fc != nil {
		for _, c := range x.fc.Cuts {
			c.Hit = false
		}
	}
	for _, b := range x.order {
		x.execBlock(b)
	}
	if x.fc == nil {
		return
	}
	for _, c := range x.fc.Cuts {
		if !c.Hit {
			ufail("site-not-found: cut load(.%s) of %s: the function no longer accesses that field", c.Field, x.fc.Name)
		}
	}
	if len(x.rets) == 0 {
		return
	}
	// merge return points
	var edges []edgeState
	var pcs []Term
	for _, r := range x.rets {
		edges = append(edges, edgeState{cond: r.pc, st: r.st})
		pcs = append(pcs, r.pc)
	}
	x.vc.curBlock = -1
	final := x.mergeStates(edges)
	exitPC := x.vc.define("pc_exit", or(pcs...))
	var results []Term
	for i := range x.rets[0].results {
		r := x.rets[len(x.rets)-1].results[i]
		for k := len(x.rets) - 2; k >= 0; k-- {
			r = ite(x.rets[k].pc, x.rets[k].results[i], r)
		}
		results = append(results, x.vc.define("result", r))
	}
	env := x.newEnv(final, x.entry)
	bindResults(env, fn, results)
	for i, r := range results {
		x.observe = append(x.observe, Observation{Label: fmt.Sprintf("result %d", i), T: r})
	}
	// split the postcondition check over the paths that meet at trivial joins before a result-less return
	var ctxs []edgeState
	if len(results) == 0 {
		budget := 48
		okSplit := true
		for _, r := range x.rets {
			cs := x.leafContexts(r.block, r.pc, r.st, &budget)
			if budget < 0 {
				okSplit = false
				break
			}
			ctxs = append(ctxs, cs...)
		}
		if !okSplit || len(ctxs) <= 1 {
			ctxs = nil
		}
	}
	for _, c := range x.fc.Ensures {
		if ctxs == nil {
			goal := x.evalClause(env, c)
			x.vc.oblige(&Obligation{Name: c.Name, Kind: "ensures", Tags: c.Tags, Goal: goal, PC: exitPC, Src: c.Src, Pos: fmt.Sprintf("%s:%d", shortPath(c.File), c.Line), Observe: x.observations()})
			continue
		}
		for k, cx := range ctxs {
			penv := x.newEnv(cx.st, x.entry)
			goal := x.evalClause(penv, c)
			x.vc.oblige(&Obligation{Name: fmt.Sprintf("%s@path%d", c.Name, k+1), Kind: "ensures", Tags: c.Tags, Goal: goal, PC: cx.cond, Src: c.Src, Pos: fmt.Sprintf("%s:%d", shortPath(c.File), c.Line), Observe: x.observations(), Block: cx.blk, BlockSet: cx.hasBlk})
		}
	}
	// frame
	if x.fc.HasMod {
		x.checkFrame(final, env, exitPC)
	}
	// cover: the exit is reachable under the precondition
	x.vc.oblige(&Obligation{Name: x.fc.Name + ".cover", Kind: "cover", Goal: tTrue, PC: exitPC, Src: "return reachable under the precondition (vacuity guard)", Cover: true})
}

func (x *Exec) trivialBlock(b *ssa.BasicBlock) bool {
	for _, in := range b.Instrs {
		switch in.(type) {
		case *ssa.RunDefers:
			if len(x.defers) > 0 {
				return false // deferred calls with a modelled effect run here: the state before the block is not the state after it
			}
		case *ssa.Return, *ssa.Jump, *ssa.DebugRef:
		default:
			return false
		}
	}
	return true
}

// leafContexts: (path condition, state) pairs whose disjunction is the context (pc, st) at the end of block b,
// obtained by un-merging joins of blocks that do nothing (weakest precondition distributes over the join).
func (x *Exec) leafContexts(b *ssa.BasicBlock, pc Term, st *State, budget *int) []edgeState {
	if !x.trivialBlock(b) || x.loops[b] != nil || b == x.fn.Blocks[0] {
		*budget--
		return []edgeState{{cond: pc, st: st, blk: b.Index, hasBlk: true}}
	}
	var out []edgeState
	n := 0
	for _, p := range b.Preds {
		ps, ok := x.exitSt[p]
		if !ok {
			continue
		}
		c, ok := x.edgeCond[[2]*ssa.BasicBlock{p, b}]
		if !ok {
			continue
		}
		n++
		if _, isJump := p.Instrs[len(p.Instrs)-1].(*ssa.Jump); isJump && x.trivialBlock(p) {
			out = append(out, x.leafContexts(p, c, ps, budget)...)
		} else {
			*budget--
			out = append(out, edgeState{cond: c, st: ps, blk: p.Index, hasBlk: true})
		}
		if *budget < 0 {
			return out
		}
	}
	if n == 0 {
		*budget--
		return []edgeState{{cond: pc, st: st, blk: b.Index, hasBlk: true}}
	}
	return out
}

func (x *Exec) checkFrame(final *State, env *Env, exitPC Term) {
	pre := *env
	pre.cur = x.entry
	fr := x.evalModifies(x.fc, &pre)
	alloc0 := x.heapInit(allocHeap, arraySort(SRef, SBool))
	byHeap := map[string][]frameEntry{}
	ghostOK := map[string]bool{}
	for _, f := range fr {
		if f.ghost != "" {
			ghostOK[f.ghost] = true
		} else if !f.alloc {
			byHeap[f.heap] = append(byHeap[f.heap], f)
		}
	}
	names := append([]string(nil), x.heapOrder...)
	sort.Strings(names)
	for _, n := range names {
		if n == allocHeap {
			continue
		}
		fin, ok := final.heaps[n]
		if !ok {
			continue
		}
		init := x.heapInit(n, x.heapSorts[n])
		if fin.S == init.S {
			continue
		}
		whole := false
		var refs []Term
		for _, f := range byHeap[n] {
			if f.ref == nil {
				whole = true
			} else {
				refs = append(refs, *f.ref)
			}
		}
		if whole {
			continue
		}
		var goal Term
		if strings.HasPrefix(n, "G:") {
			goal = eq(fin, init)
		} else {
			x.qn++
			r := fmt.Sprintf("r!q%d", x.qn)
			var notIn []Term
			for _, rf := range refs {
				notIn = append(notIn, not(eq(Term{r, SRef}, rf)))
			}
			hyp := and(append([]Term{sel(alloc0, Term{r, SRef})}, notIn...)...)
			goal = T(SBool, "(forall ((%s Ref)) (=> %s (= (select %s %s) (select %s %s))))", r, hyp.S, fin.S, r, init.S, r)
		}
		x.vc.oblige(&Obligation{Name: fmt.Sprintf("%s.frame[%s]", x.fc.Name, n), Kind: "frame", Tags: nil, Goal: goal, PC: exitPC,
			Src: "only the locations listed in `modifies` change in heap " + n, Observe: x.observations()})
	}
	var gs []string
	for g := range final.ghosts {
		gs = append(gs, g)
	}
	sort.Strings(gs)
	for _, g := range gs {
		if ghostOK[g] {
			continue
		}
		init := x.ghostInit(g)
		if final.ghosts[g].S == init.S {
			continue
		}
		x.vc.oblige(&Obligation{Name: fmt.Sprintf("%s.frame[ghost %s]", x.fc.Name, g), Kind: "frame", Goal: eq(final.ghosts[g], init), PC: exitPC,
			Src: "ghost " + g + " unchanged (not in `modifies`)", Observe: x.observations()})
	}
}
