package main

import (
	"fmt"
	"go/types"
	"sort"
	"strings"

	"golang.org/x/tools/go/ssa"
)

// State is the symbolic program state at a point: locals, heap versions, ghost variables.
type State struct {
	locals map[*ssa.Alloc]Term
	heaps  map[string]Term // missing = initial version
	ghosts map[string]Term
	iters  map[ssa.Value]Term // visited-set per map iterator (Range instruction)
}

func newState() *State {
	return &State{locals: map[*ssa.Alloc]Term{}, heaps: map[string]Term{}, ghosts: map[string]Term{}, iters: map[ssa.Value]Term{}}
}

func (s *State) clone() *State {
	n := newState()
	for k, v := range s.locals {
		n.locals[k] = v
	}
	for k, v := range s.heaps {
		n.heaps[k] = v
	}
	for k, v := range s.ghosts {
		n.ghosts[k] = v
	}
	for k, v := range s.iters {
		n.iters[k] = v
	}
	return n
}

// ---- heap naming

const allocHeap = "$alloc"

func heapSym(name string) string {
	return "H_" + strings.ReplaceAll(sanitize(strings.ReplaceAll(name, "$", "S")), "__", "_") + "_" + shortHash(name)[:4]
}

type heapWrite struct {
	heap string
	ref  string
}

type HeapInfo struct {
	Name string
	Sort Sort
}

// Exec-level heap registry
func (x *Exec) heapInit(name string, s Sort) Term {
	if hs, ok := x.heapSorts[name]; ok {
		if hs != s {
			panic(fmt.Sprintf("heap %s sort mismatch %s vs %s", name, hs, s))
		}
	} else {
		x.heapSorts[name] = s
		x.allSorts[name] = s
		x.heapOrder = append(x.heapOrder, name)
	}
	t := x.vc.named(heapSym(name)+"@0", s)
	if strings.HasPrefix(name, "MP:") && !x.nilAxiom[name] {
		x.nilAxiom[name] = true
		_, inner := s.arrayParts()
		x.vc.assume(eq(sel(t, tNil), constArray(inner, tFalse)), "nil map is empty")
	}
	return t
}

func (x *Exec) heapGet(st *State, name string, s Sort) Term {
	if t, ok := st.heaps[name]; ok {
		return t
	}
	return x.heapInit(name, s)
}

func (x *Exec) heapSet(st *State, name string, t Term) {
	if _, ok := x.heapSorts[name]; !ok {
		x.heapInit(name, t.Sort)
	}
	// write log: which object of the heap is written (for the automatic loop frame)
	ref := "*"
	if strings.HasPrefix(t.S, "(store ") {
		if args := splitSexprArgs(t.S); len(args) == 4 {
			cur := x.heapGet(st, name, t.Sort)
			if args[1] == cur.S {
				ref = args[2]
			}
		}
	}
	x.writeLog = append(x.writeLog, heapWrite{name, ref})
	st.heaps[name] = x.vc.define(heapSym(name), t)
}

func structName(t types.Type) string {
	if n, ok := t.(*types.Named); ok {
		return n.Obj().Pkg().Name() + "." + n.Obj().Name()
	}
	return "anon" + shortHash(typeKey(t.Underlying()))
}

func (x *Exec) fieldHeap(structT types.Type, i int) (string, Sort) {
	st := structT.Underlying().(*types.Struct)
	f := st.Field(i)
	return "F:" + structName(structT) + "." + f.Name(), arraySort(SRef, x.w.sortOf(f.Type()))
}

func (x *Exec) ptrHeap(elem types.Type) (string, Sort) {
	s := x.w.sortOf(elem)
	return "P:" + canonType(elem), arraySort(SRef, s)
}

// canonType: canonical name of a Go type; two values can alias only if their types have the same name here.
func canonType(t types.Type) string {
	switch u := t.(type) {
	case *types.Named:
		if u.Obj().Pkg() == nil {
			return u.Obj().Name()
		}
		return u.Obj().Pkg().Name() + "." + u.Obj().Name()
	case *types.Basic:
		switch u.Kind() {
		case types.Uint8:
			return "uint8"
		case types.Int32:
			return "int32"
		}
		return u.Name()
	case *types.Pointer:
		return "*" + canonType(u.Elem())
	case *types.Slice:
		return "[]" + canonType(u.Elem())
	case *types.Array:
		return fmt.Sprintf("[%d]%s", u.Len(), canonType(u.Elem()))
	case *types.Map:
		return "map[" + canonType(u.Key()) + "]" + canonType(u.Elem())
	case *types.Chan:
		return "chan " + canonType(u.Elem())
	case *types.Struct:
		return "struct" + shortHash(typeKey(u))
	case *types.Interface:
		if u.NumMethods() == 0 {
			return "any"
		}
		return "iface" + shortHash(typeKey(u))
	case *types.Signature:
		return "func" + shortHash(typeKey(u))
	}
	return shortHash(typeKey(t))
}

func (x *Exec) mapHeaps(m *types.Map) (mv, mp string, mvS, mpS Sort, ks, vs Sort) {
	ks = x.w.sortOf(m.Key())
	vs = x.w.sortOf(m.Elem())
	id := canonType(m.Key()) + "," + canonType(m.Elem())
	return "MV:" + id, "MP:" + id, arraySort(SRef, arraySort(ks, vs)), arraySort(SRef, arraySort(ks, SBool)), ks, vs
}

func (x *Exec) sliceHeap(elem types.Type) (string, Sort) {
	s := x.w.sortOf(elem)
	return "SE:" + canonType(elem), arraySort(SRef, arraySort(SBV(64), s))
}

// ---- addresses

type addrKind int

const (
	aLocal addrKind = iota
	aStructPtr
	aHeap  // heap[ref] (+path)
	aSlice // heap[ref][idx] (+path)
)

type PathElem struct {
	Field int   // struct field or constant array index
	Index *Term // variable array index (BV64), nil if constant
}

type Addr struct {
	Kind   addrKind
	Local  *ssa.Alloc
	Heap   string
	HSort  Sort
	Ref    Term
	Idx    Term
	Path   []PathElem
	Typ    types.Type // type of the addressed location
	Struct types.Type // for aStructPtr
	Global *ssa.Global // aLocal with Local == nil: a package-level variable (element of a global array / field of a global struct)
}

func (a Addr) withPath(p PathElem, t types.Type) Addr {
	n := a
	n.Path = append(append([]PathElem(nil), a.Path...), p)
	n.Typ = t
	return n
}

// project value v along path
func (x *Exec) project(v Term, path []PathElem) Term {
	for _, p := range path {
		dt := x.w.dtOf(v.Sort)
		if dt == nil {
			panic("project through non-datatype " + string(v.Sort))
		}
		if p.Index == nil {
			v = x.w.dtSelect(v, p.Field)
		} else {
			// ite chain over array elements
			n := len(dt.Fields)
			r := x.w.dtSelect(v, n-1)
			for i := n - 2; i >= 0; i-- {
				r = ite(eq(*p.Index, bvInt(64, int64(i))), x.w.dtSelect(v, i), r)
			}
			v = r
		}
	}
	return v
}

func (x *Exec) inject(v Term, path []PathElem, nv Term) Term {
	if len(path) == 0 {
		return nv
	}
	p := path[0]
	dt := x.w.dtOf(v.Sort)
	if p.Index == nil {
		inner := x.inject(x.w.dtSelect(v, p.Field), path[1:], nv)
		return x.w.dtUpdate(v, p.Field, inner)
	}
	var fs []Term
	for i := range dt.Fields {
		cur := x.w.dtSelect(v, i)
		upd := x.inject(cur, path[1:], nv)
		fs = append(fs, ite(eq(*p.Index, bvInt(64, int64(i))), upd, cur))
	}
	return x.w.dtMake(v.Sort, fs)
}

func (x *Exec) loadAddr(st *State, a Addr) Term {
	switch a.Kind {
	case aLocal:
		if a.Local == nil {
			if a.Global == nil {
				ufail("load through an address without storage")
			}
			return x.project(x.globalGet(st, a.Global), a.Path)
		}
		v, ok := st.locals[a.Local]
		if !ok {
			// not yet initialised on this path (alloc in a block not executed): use zero
			v = x.w.zeroOf(a.Local.Type().(*types.Pointer).Elem())
		}
		return x.project(v, a.Path)
	case aStructPtr:
		stt := a.Struct.Underlying().(*types.Struct)
		var fs []Term
		for i := 0; i < stt.NumFields(); i++ {
			hn, hs := x.fieldHeap(a.Struct, i)
			fs = append(fs, sel(x.heapGet(st, hn, hs), a.Ref))
		}
		return x.w.dtMake(x.w.sortOf(a.Struct), fs)
	case aHeap:
		return x.project(sel(x.heapGet(st, a.Heap, a.HSort), a.Ref), a.Path)
	case aSlice:
		return x.project(sel(sel(x.heapGet(st, a.Heap, a.HSort), a.Ref), a.Idx), a.Path)
	}
	panic("bad addr")
}

func (x *Exec) storeAddr(st *State, a Addr, v Term) {
	switch a.Kind {
	case aLocal:
		if a.Local == nil {
			if a.Global == nil {
				ufail("store through an address without storage")
			}
			name := "G:" + a.Global.Pkg.Pkg.Name() + "." + a.Global.Name()
			st.heaps[name] = x.vc.define("g_"+a.Global.Name(), x.inject(x.globalGet(st, a.Global), a.Path, v))
			return
		}
		cur, ok := st.locals[a.Local]
		if !ok {
			cur = x.w.zeroOf(a.Local.Type().(*types.Pointer).Elem())
		}
		st.locals[a.Local] = x.vc.define("l_"+a.Local.Comment, x.inject(cur, a.Path, v))
	case aStructPtr:
		stt := a.Struct.Underlying().(*types.Struct)
		for i := 0; i < stt.NumFields(); i++ {
			hn, hs := x.fieldHeap(a.Struct, i)
			x.heapSet(st, hn, sto(x.heapGet(st, hn, hs), a.Ref, x.w.dtSelect(v, i)))
		}
	case aHeap:
		h := x.heapGet(st, a.Heap, a.HSort)
		nv := v
		if len(a.Path) > 0 {
			nv = x.inject(sel(h, a.Ref), a.Path, v)
		}
		x.heapSet(st, a.Heap, sto(h, a.Ref, nv))
	case aSlice:
		h := x.heapGet(st, a.Heap, a.HSort)
		inner := sel(h, a.Ref)
		nv := v
		if len(a.Path) > 0 {
			nv = x.inject(sel(inner, a.Idx), a.Path, v)
		}
		x.heapSet(st, a.Heap, sto(h, a.Ref, sto(inner, a.Idx, nv)))
	}
}

// ---- merging

type edgeState struct {
	cond   Term
	st     *State
	blk    int
	hasBlk bool
}

func (x *Exec) mergeStates(edges []edgeState) *State {
	if len(edges) == 1 {
		return edges[0].st.clone()
	}
	out := newState()
	mergeMap := func(get func(*State) map[string]Term, put func(string, Term), dflt func(string) Term) {
		keys := map[string]bool{}
		for _, e := range edges {
			for k := range get(e.st) {
				keys[k] = true
			}
		}
		var ks []string
		for k := range keys {
			ks = append(ks, k)
		}
		sort.Strings(ks)
		for _, k := range ks {
			var vals []Term
			same := true
			for _, e := range edges {
				v, ok := get(e.st)[k]
				if !ok {
					v = dflt(k)
				}
				vals = append(vals, v)
				if v.S != vals[0].S {
					same = false
				}
			}
			if same {
				put(k, vals[0])
				continue
			}
			r := vals[len(vals)-1]
			for i := len(vals) - 2; i >= 0; i-- {
				r = ite(edges[i].cond, vals[i], r)
			}
			put(k, x.vc.define("m_"+k, r))
		}
	}
	mergeMap(func(s *State) map[string]Term { return s.heaps }, func(k string, t Term) { out.heaps[k] = t },
		func(k string) Term { return x.heapInit(k, x.heapSorts[k]) })
	mergeMap(func(s *State) map[string]Term { return s.ghosts }, func(k string, t Term) { out.ghosts[k] = t },
		func(k string) Term { return x.ghostInit(k) })
	// locals
	lkeys := map[*ssa.Alloc]bool{}
	for _, e := range edges {
		for k := range e.st.locals {
			lkeys[k] = true
		}
	}
	var lks []*ssa.Alloc
	for k := range lkeys {
		lks = append(lks, k)
	}
	sort.Slice(lks, func(i, j int) bool { return lks[i].Name() < lks[j].Name() })
	for _, k := range lks {
		var vals []Term
		same := true
		for _, e := range edges {
			v, ok := e.st.locals[k]
			if !ok {
				v = x.w.zeroOf(k.Type().(*types.Pointer).Elem())
			}
			vals = append(vals, v)
			if v.S != vals[0].S {
				same = false
			}
		}
		if same {
			out.locals[k] = vals[0]
			continue
		}
		r := vals[len(vals)-1]
		for i := len(vals) - 2; i >= 0; i-- {
			r = ite(edges[i].cond, vals[i], r)
		}
		out.locals[k] = x.vc.define("m_"+k.Comment, r)
	}
	// iterators
	ikeys := map[ssa.Value]bool{}
	for _, e := range edges {
		for k := range e.st.iters {
			ikeys[k] = true
		}
	}
	for k := range ikeys {
		var vals []Term
		same := true
		ok := true
		for _, e := range edges {
			v, has := e.st.iters[k]
			if !has {
				ok = false
				break
			}
			vals = append(vals, v)
			if v.S != vals[0].S {
				same = false
			}
		}
		if !ok {
			continue
		}
		if same {
			out.iters[k] = vals[0]
			continue
		}
		r := vals[len(vals)-1]
		for i := len(vals) - 2; i >= 0; i-- {
			r = ite(edges[i].cond, vals[i], r)
		}
		out.iters[k] = x.vc.define("m_iter", r)
	}
	return out
}
