package main

import (
	"encoding/json"
	"flag"
	"fmt"
	"os"
	"path/filepath"
	"sort"
	"strconv"
	"strings"
	"time"

	"golang.org/x/tools/go/ssa"
)

func main() {
	if len(os.Args) < 2 {
		fmt.Fprintln(os.Stderr, "usage: hv check|vc|list|replay ...")
		os.Exit(2)
	}
	switch os.Args[1] {
	case "check":
		os.Exit(cmdCheck(os.Args[2:]))
	case "vc":
		os.Exit(cmdVC(os.Args[2:]))
	case "list":
		os.Exit(cmdList(os.Args[2:]))
	case "locals":
		os.Exit(cmdLocals(os.Args[2:]))
	case "replay":
		os.Exit(cmdReplay(os.Args[2:]))
	default:
		fmt.Fprintln(os.Stderr, "unknown command", os.Args[1])
		os.Exit(2)
	}
}

func hasTag(tags []string, p string) bool {
	for _, t := range tags {
		if t == p {
			return true
		}
	}
	return false
}

func cmdList(args []string) int {
	eng, err := loadEngine()
	if err != nil {
		fmt.Fprintln(os.Stderr, "load error:", err)
		return 3
	}
	for _, k := range eng.cf.FuncOrder {
		fr := eng.genVC(k)
		n := 0
		if fr.VC != nil {
			n = len(fr.VC.obls)
		}
		fmt.Printf("%-60s obligations=%d instr=%d err=%s\n", k, n, fr.NInstr, fr.Err)
	}
	return 0
}

// cmdLocals: records, for every function under contract, its local variables in declaration order
// (/verif/contracts/locals.json). A contract that names a local which was since RENAMED is resolved through this table.
func cmdLocals(args []string) int {
	eng, err := loadEngine()
	if err != nil {
		fmt.Fprintln(os.Stderr, "load error:", err)
		return 3
	}
	tab := map[string][]string{}
	for _, k := range eng.cf.FuncOrder {
		if fn := eng.funcs[k]; fn != nil {
			tab[k] = localDecls(fn)
		}
	}
	data, _ := json.MarshalIndent(tab, "", " ")
	if err := os.WriteFile(filepath.Join(verifRoot(), "contracts", "locals.json"), data, 0o644); err != nil {
		fmt.Fprintln(os.Stderr, err)
		return 2
	}
	fmt.Printf("wrote locals of %d functions\n", len(tab))
	return 0
}

// cmdVC: debugging aid: dump obligations of one function and solve them.
func cmdVC(args []string) int {
	fs := flag.NewFlagSet("vc", flag.ExitOnError)
	fn := fs.String("func", "", "function key substring")
	dump := fs.String("dump", "", "directory for SMT files")
	timeout := fs.Int("timeout", 20, "solver timeout (s)")
	only := fs.String("only", "", "obligation name substring")
	lemma := fs.String("lemma", "", "lemma name")
	fs.Parse(args)
	eng, err := loadEngine()
	if err != nil {
		fmt.Fprintln(os.Stderr, "load error:", err)
		return 3
	}
	var frs []*FuncResult
	if *lemma != "" {
		for _, l := range eng.cf.Lemmas {
			if strings.Contains(l.Name, *lemma) {
				frs = append(frs, eng.genLemmaVC(l, eng.lemmaPkg()))
			}
		}
	} else {
		for _, k := range eng.cf.FuncOrder {
			if strings.Contains(k, *fn) {
				frs = append(frs, eng.genVC(k))
			}
		}
	}
	rc := 0
	for _, fr := range frs {
		fmt.Printf("== %s (%d instr) err=%q\n", fr.Key, fr.NInstr, fr.Err)
		if fr.VC == nil {
			continue
		}
		var jobs []job
		for i, o := range fr.VC.obls {
			if *only != "" && !strings.Contains(o.Name, *only) {
				continue
			}
			jobs = append(jobs, job{fr.VC, o, i})
			if *dump != "" {
				os.MkdirAll(*dump, 0o755)
				mode := 0
				if os.Getenv("HV_DUMP_MODE") != "" {
					mode, _ = strconv.Atoi(os.Getenv("HV_DUMP_MODE"))
				}
				os.WriteFile(filepath.Join(*dump, sanitize(o.Name)+".smt2"), []byte(fr.VC.smtForOpt(o, true, mode)), 0o644)
			}
		}
		res := solveAll(jobs, func(*Obligation) int { return *timeout }, 0, 1, 8)
		for _, r := range res {
			fmt.Printf("  %-14s %-8s %6.2fs %7dB  %s %v  -- %s\n", r.Status, r.Solver, r.TimeS, r.SMTBytes, r.Obl.Name, r.Obl.Tags, r.Obl.Src)
			if strings.HasPrefix(r.Status, "failed") || r.Status == "cover-vacuous" {
				rc = 1
				if r.Model != nil {
					var ks []string
					for k := range r.Model {
						ks = append(ks, k)
					}
					sort.Strings(ks)
					for _, k := range ks {
						fmt.Printf("        %s = %s\n", k, r.Model[k])
					}
				}
			}
		}
	}
	return rc
}

func (e *Engine) lemmaPkg() *typesPackage {
	return e.allPkgs[modPath+"/internal/pkg/midi/device"].Types
}

// ---- check

type KnownFinding struct {
	Property   string `json:"property"`
	Obligation string `json:"obligation"`
	What       string `json:"what"`
	Status     string `json:"status"` // open | fixed
	Commit     string `json:"commit,omitempty"`
}

type KnownFindings struct {
	Findings []KnownFinding `json:"findings"`
}

func loadKnown() KnownFindings {
	var k KnownFindings
	data, err := os.ReadFile(filepath.Join(verifRoot(), "known_findings.json"))
	if err == nil {
		json.Unmarshal(data, &k)
	}
	return k
}

type PropConfig struct {
	Level      string       `json:"level"`
	Lemmas     []string     `json:"lemmas"`
	ExtraFuncs []string     `json:"extra_funcs"`
	Standins   []StandinCfg `json:"standins"`
	Scans      []string     `json:"scans"`
	NotDecided []string     `json:"clauses_not_decided"`
	Bounded    []string     `json:"bounded_clauses"`
	Note       string       `json:"note"`
}

func loadProps() map[string]PropConfig {
	m := map[string]PropConfig{}
	data, err := os.ReadFile(filepath.Join(verifRoot(), "props", "props.json"))
	if err == nil {
		json.Unmarshal(data, &m)
	}
	return m
}

func (e *Engine) contractCallees(fn *ssa.Function) []string {
	var out []string
	seen := map[string]bool{}
	dyn := false
	for _, b := range fn.Blocks {
		for _, in := range b.Instrs {
			var cc *ssa.CallCommon
			switch c := in.(type) {
			case *ssa.Call:
				cc = &c.Call
			}
			if cc == nil {
				continue
			}
			if callee := cc.StaticCallee(); callee != nil {
				callee = e.unwrap(callee)
				if callee.Pkg != nil {
					k := callee.Pkg.Pkg.Path() + "#" + callee.RelString(callee.Pkg.Pkg)
					if _, ok := e.cf.Funcs[k]; ok && !seen[k] {
						seen[k] = true
						out = append(out, k)
					}
				}
			} else if !cc.IsInvoke() {
				if _, isB := cc.Value.(*ssa.Builtin); !isB {
					dyn = true
				}
			}
		}
	}
	if dyn {
		// dynamic call: every contract function may be a target
		for _, k := range e.cf.FuncOrder {
			f := e.funcs[k]
			if f != nil && f.Signature.Recv() != nil && f.Signature.Params().Len() == 0 && f.Signature.Results().Len() == 0 && !seen[k] {
				seen[k] = true
				out = append(out, k)
			}
		}
	}
	return out
}

func firstOr(ls []string) string {
	if len(ls) > 0 {
		return ls[0]
	}
	return ""
}

var evStandins []StandinResult
var evScans []ScanResult

type ScanResult struct {
	Name     string   `json:"name"`
	Checked  int      `json:"globals_checked"`
	Findings []string `json:"findings"`
	What     string   `json:"what"`
}

func (e *Engine) scanGlobalWrites() ScanResult {
	res := ScanResult{Name: "global-write", What: "every package-level variable of the repository packages under contract: no Store / map update / delete outside package init"}
	for _, rel := range contractPkgs {
		sp := e.ssaPkg[modPath+"/"+rel]
		if sp == nil {
			continue
		}
		var names []string
		for n, m := range sp.Members {
			if _, ok := m.(*ssa.Global); ok {
				names = append(names, n)
			}
		}
		sort.Strings(names)
		for _, n := range names {
			g := sp.Members[n].(*ssa.Global)
			if strings.HasPrefix(n, "init$") {
				continue
			}
			res.Checked++
			if !e.globalNeverWritten(g) {
				res.Findings = append(res.Findings, "package-level variable "+rel+"."+n+" is written outside init")
			}
		}
	}
	return res
}

func cmdCheck(args []string) int {
	fs := flag.NewFlagSet("check", flag.ExitOnError)
	prop := fs.String("property", "", "property id")
	tier := fs.String("tier", "", "quick|thorough")
	fs.Parse(args)
	if *tier == "" {
		*tier = os.Getenv("VERIF_TIER")
	}
	if *tier == "" {
		*tier = "quick"
	}
	seed := 0
	if s := os.Getenv("VERIF_SEED"); s != "" {
		seed, _ = strconv.Atoi(s)
	}
	start := time.Now()
	P := *prop
	eng, err := loadEngine()
	if err != nil {
		fmt.Printf("UNDECIDED property=%s reason=load-error %v\n", P, err)
		return 3
	}
	props := loadProps()
	pc := props[P]
	// generate VCs for every function under contract
	results := map[string]*FuncResult{}
	for _, k := range eng.cf.FuncOrder {
		results[k] = eng.genVC(k)
	}
	// cone: functions with an obligation tagged P, plus transitive contract callees
	cone := map[string]bool{}
	var work []string
	for _, k := range eng.cf.FuncOrder {
		fr := results[k]
		tagged := false
		if fr.VC != nil {
			for _, o := range fr.VC.obls {
				if hasTag(o.Tags, P) {
					tagged = true
				}
			}
		}
		fc := eng.cf.Funcs[k]
		for _, c := range fc.Ensures {
			if hasTag(c.Tags, P) {
				tagged = true
			}
		}
		for _, c := range fc.Requires {
			if hasTag(c.Tags, P) {
				tagged = true
			}
		}
		if hasTag(fc.Safety, P) {
			tagged = true
		}
		for _, ef := range pc.ExtraFuncs {
			if strings.HasSuffix(k, "#"+ef) {
				tagged = true
			}
		}
		if tagged {
			cone[k] = true
			work = append(work, k)
		}
	}
	for len(work) > 0 {
		k := work[len(work)-1]
		work = work[:len(work)-1]
		fn := eng.funcs[k]
		if fn == nil {
			continue
		}
		for _, c := range eng.contractCallees(fn) {
			if !cone[c] {
				cone[c] = true
				work = append(work, c)
			}
		}
	}
	var coneKeys []string
	for _, k := range eng.cf.FuncOrder {
		if cone[k] {
			coneKeys = append(coneKeys, k)
		}
	}
	// lemmas
	var lemmaResults []*FuncResult
	for _, l := range eng.cf.Lemmas {
		if hasTag(l.Tags, P) {
			lemmaResults = append(lemmaResults, eng.genLemmaVC(l, eng.lemmaPkg()))
		}
	}
	undecided := []string{}
	var jobs []job
	for _, k := range coneKeys {
		fr := results[k]
		if fr.Err != "" {
			undecided = append(undecided, fr.Key+": "+fr.Err)
			continue
		}
		if fr.VC == nil {
			continue
		}
		for i, o := range fr.VC.obls {
			if len(o.Tags) == 0 || hasTag(o.Tags, P) {
				jobs = append(jobs, job{fr.VC, o, i})
			}
		}
	}
	for _, fr := range lemmaResults {
		if fr.Err != "" {
			undecided = append(undecided, fr.Key+": "+fr.Err)
			continue
		}
		for i, o := range fr.VC.obls {
			jobs = append(jobs, job{fr.VC, o, i})
		}
	}
	// bounded stand-ins (real code, stated bound): reported separately, never counted as proved
	var standins []StandinResult
	standinViol := 0
	for _, sc := range pc.Standins {
		r := runStandin(sc, *tier)
		standins = append(standins, r)
		if r.Error != "" {
			undecided = append(undecided, "stand-in "+sc.Name+": "+r.Error)
		}
		// findings recorded in known_findings.json are reported as such; an unlisted key is a violation
		for key, n := range r.Known {
			listed := false
			for _, f := range loadKnown().Findings {
				if f.Property == P && f.Status == "open" && f.Obligation == key {
					fmt.Printf("KNOWN-FINDING: property=%s %s (%d inputs in this run, e.g. %s)\n", P, f.What, n, firstOr(r.KnownLines))
					listed = true
				}
			}
			if !listed {
				r.Violations += n
				r.Lines = append(r.Lines, r.KnownLines...)
			}
		}
		if r.Violations > 0 {
			standinViol++
			path := writeStandinReplay(P, sc, r)
			fmt.Printf("VIOLATION property=%s replay=%s\n", P, path)
			for _, l := range r.Lines {
				fmt.Println("  " + l)
			}
		}
	}
	evStandins = standins
	// mechanical scans (syntactic frame conditions over all loaded functions of the repository)
	evScans = nil
	for _, sc := range pc.Scans {
		var res ScanResult
		clause := ""
		switch sc {
		case "global-write":
			res = eng.scanGlobalWrites()
			clause = "no package-level variable of the device/midi/config/input packages is written after init (devices share no mutable state)"
		case "global-alias":
			res = eng.scanGlobalAlias()
			clause = "no mutable container obtained from a package-level variable becomes part of a device's state (devices share no mutable state)"
		case "guarded-access":
			res = eng.scanGuardedAccess()
			clause = "goroutines started by functions under contract access guarded device state only with the guarding mutex held (must-lockset dataflow)"
		default:
			fmt.Printf("UNDECIDED property=%s reason=unknown scan %s\n", P, sc)
			return 3
		}
		evScans = append(evScans, res)
		for i, w := range res.Findings {
			standinViol++
			path := filepath.Join(outRoot(), "replays", P, fmt.Sprintf("scan_%s_%d.replay.json", strings.ReplaceAll(sc, "-", "_"), i+1))
			os.MkdirAll(filepath.Dir(path), 0o755)
			data, _ := json.MarshalIndent(ReplayFile{Property: P, Obligation: "scan " + sc, Kind: "scan", Clause: clause, Status: "failed", ReplayNote: w}, "", " ")
			os.WriteFile(path, data, 0o644)
			fmt.Printf("VIOLATION property=%s replay=%s no-failing-input-found\n  %s\n", P, path, w)
		}
	}
	if len(undecided) > 0 {
		for _, u := range undecided {
			fmt.Printf("UNDECIDED property=%s reason=%s\n", P, u)
		}
		writeEvidence(P, *tier, seed, eng, coneKeys, results, lemmaResults, nil, pc, time.Since(start).Seconds(), standinViol, undecided)
		if standinViol > 0 {
			return 1
		}
		return 3
	}
	baseTO, floatTO, agree := 60, 300, 1 // quick: generous against a loaded machine; an unchanged tree never comes near it
	if *tier == "thorough" {
		baseTO, floatTO, agree = 120, 1200, 2
	}
	timeoutFor := func(o *Obligation) int {
		if o.Cover {
			return 5
		}
		if strings.Contains(o.Goal.S, "fp.") || strings.Contains(o.PC.S, "fp.") || o.Kind == "float" {
			return floatTO
		}
		return baseTO
	}
	sres := solveAll(jobs, timeoutFor, seed, agree, 16)
	known := loadKnown()
	violations := standinViol
	rc := 0
	if standinViol > 0 {
		rc = 1
	}
	for _, r := range sres {
		switch r.Status {
		case "discharged", "cover-ok":
			continue
		case "cover-unknown":
			fmt.Printf("NOTE cover-inconclusive %s\n", r.Obl.Name)
			continue
		}
		// failed
		kf := false
		for _, f := range known.Findings {
			if f.Property == P && f.Status == "open" && f.Obligation == r.Obl.Name {
				fmt.Printf("KNOWN-FINDING: property=%s %s (%s)\n", P, f.What, r.Obl.Name)
				kf = true
			}
		}
		if kf {
			continue
		}
		violations++
		rc = 1
		path := writeReplay(P, r, eng)
		suffix := ""
		if !replayConfirmed(path) {
			suffix = " no-failing-input-found"
		}
		fmt.Printf("VIOLATION property=%s replay=%s%s\n", P, path, suffix)
		fmt.Printf("  obligation %s [%s] %s: %s\n", r.Obl.Name, r.Obl.Kind, r.Status, r.Obl.Src)
	}
	writeEvidence(P, *tier, seed, eng, coneKeys, results, lemmaResults, sres, pc, time.Since(start).Seconds(), violations, nil)
	if rc == 0 {
		fmt.Printf("OK property=%s obligations=%d functions=%d wall=%.1fs\n", P, len(jobs), len(coneKeys), time.Since(start).Seconds())
	}
	return rc
}
