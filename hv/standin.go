package main

// Bounded stand-ins: tests that drive the REAL code over a stated finite bound. They are reported separately
// (bounded_clauses), never counted as discharged obligations.

import (
	"bytes"
	"encoding/json"
	"fmt"
	"os"
	"os/exec"
	"path/filepath"
	"regexp"
	"strings"
	"time"
)

type StandinCfg struct {
	Name   string `json:"name"`
	File   string `json:"file"`
	Pkg    string `json:"pkg"`
	Run    string `json:"run"`
	Covers string `json:"covers"`
}

type StandinResult struct {
	Name        string   `json:"name"`
	Covers      string   `json:"covers"`
	Evaluations int      `json:"evaluations"`
	Violations  int      `json:"violations"`
	Bound       string   `json:"bound"`
	WallS       float64  `json:"wall_s"`
	Lines       []string `json:"violation_lines,omitempty"`
	Known       map[string]int `json:"known_finding_hits,omitempty"`
	KnownLines  []string `json:"known_finding_samples,omitempty"`
	Error       string   `json:"error,omitempty"`
	Label       string   `json:"label"`
}

var boundedRe = regexp.MustCompile(`HV-BOUNDED evaluations=(\d+) violations=(\d+) bound="(.*)"`)

func goTestOverlay(pkg, testFile, run string, tier string, timeout time.Duration) (string, error) {
	dir, err := os.MkdirTemp("", "hv-ov-")
	if err != nil {
		return "", err
	}
	defer os.RemoveAll(dir)
	ov := map[string]map[string]string{"Replace": {filepath.Join(repoRoot, pkg, "zz_hv_injected_test.go"): testFile}}
	data, _ := json.Marshal(ov)
	ovf := filepath.Join(dir, "ov.json")
	os.WriteFile(ovf, data, 0o644)
	cmd := exec.Command("go", "test", "-overlay", ovf, "-vet=off", "-count=1", "-v", "-timeout", fmt.Sprintf("%ds", int(timeout.Seconds())), "-run", "^"+run+"$", "./"+pkg+"/")
	cmd.Dir = repoRoot
	cmd.Env = append(os.Environ(), "GOFLAGS=-mod=mod", "GOPROXY=off", "GOSUMDB=off", "GOTOOLCHAIN=local", "VERIF_TIER="+tier)
	var out bytes.Buffer
	cmd.Stdout = &out
	cmd.Stderr = &out
	err = cmd.Run()
	return out.String(), err
}

func runStandin(sc StandinCfg, tier string) StandinResult {
	start := time.Now()
	res := StandinResult{Name: sc.Name, Covers: sc.Covers, Label: "bounded"}
	to := 10 * time.Minute
	if tier == "thorough" {
		to = 60 * time.Minute
	}
	out, _ := goTestOverlay(sc.Pkg, filepath.Join(verifRoot(), "standins", sc.File), sc.Run, tier, to)
	res.WallS = time.Since(start).Seconds()
	for _, ln := range strings.Split(out, "\n") {
		if strings.HasPrefix(ln, "HV-VIOLATION") {
			res.Lines = append(res.Lines, ln)
		}
		if strings.HasPrefix(ln, "HV-KNOWN ") {
			res.KnownLines = append(res.KnownLines, ln)
		}
		if strings.HasPrefix(ln, "HV-KNOWN-COUNT ") {
			var key string
			var n int
			fmt.Sscanf(ln, "HV-KNOWN-COUNT key=%s count=%d", &key, &n)
			if res.Known == nil {
				res.Known = map[string]int{}
			}
			res.Known[key] = n
		}
		if m := boundedRe.FindStringSubmatch(ln); m != nil {
			fmt.Sscanf(m[1], "%d", &res.Evaluations)
			fmt.Sscanf(m[2], "%d", &res.Violations)
			res.Bound = m[3]
		}
	}
	if res.Bound == "" {
		res.Error = "stand-in did not complete: " + truncate(out, 2000)
	}
	if len(res.Lines) > 0 && res.Violations == 0 {
		res.Violations = len(res.Lines)
	}
	return res
}

func writeStandinReplay(P string, sc StandinCfg, r StandinResult) string {
	dir := filepath.Join(outRoot(), "replays", P)
	os.MkdirAll(dir, 0o755)
	path := filepath.Join(dir, "standin_"+sanitize(sc.Name)+".replay.json")
	src, _ := os.ReadFile(filepath.Join(verifRoot(), "standins", sc.File))
	rf := ReplayFile{Property: P, Obligation: "bounded stand-in " + sc.Name, Kind: "bounded", Clause: sc.Covers, Status: "failed-on-real-code",
		Replayed: true, ReplayNote: "the stand-in executes the real functions of /repo; the lines below are the failing inputs", ReplayTest: string(src), ReplayPkg: sc.Pkg,
		ReplayOut: strings.Join(r.Lines, "\n"), Function: sc.Run}
	data, _ := json.MarshalIndent(rf, "", " ")
	os.WriteFile(path, data, 0o644)
	return path
}
