package main

import (
	"encoding/json"
	"fmt"
	"go/types"
	"os"
	"path/filepath"
	"sort"
	"strings"
)

type typesPackage = types.Package

type oblEvidence struct {
	Name   string   `json:"name"`
	Kind   string   `json:"kind"`
	Func   string   `json:"function"`
	Tags   []string `json:"tags,omitempty"`
	Status string   `json:"status"`
	Solver string   `json:"solver"`
	TimeS  float64  `json:"time_s"`
	Bytes  int      `json:"smt_bytes"`
	Clause string   `json:"clause,omitempty"`
}

type funcEvidence struct {
	Name    string `json:"name"`
	File    string `json:"file"`
	Lines   string `json:"lines"`
	SrcHash string `json:"source_sha1_prefix"`
	Instrs  int    `json:"ssa_instructions"`
	Trusted bool   `json:"contract_assumed_not_verified,omitempty"`
}

func writeEvidence(P, tier string, seed int, eng *Engine, cone []string, results map[string]*FuncResult, lemmas []*FuncResult, sres []*SolveResult, pc PropConfig, wall float64, violations int, undecided []string) {
	var obls []oblEvidence
	discharged := 0
	total := 0
	solverTime := map[string]float64{}
	var samples []interface{}
	for _, r := range sres {
		if r.Obl.Cover {
			// vacuity guards are reported but not counted as proof obligations
			obls = append(obls, oblEvidence{r.Obl.Name, "cover(vacuity guard)", r.Obl.Func, r.Obl.Tags, r.Status, r.Solver, r.TimeS, r.SMTBytes, r.Obl.Src})
			continue
		}
		total++
		if r.Status == "discharged" {
			discharged++
		}
		solverTime[r.Solver] += r.TimeS
		obls = append(obls, oblEvidence{r.Obl.Name, r.Obl.Kind, r.Obl.Func, r.Obl.Tags, r.Status, r.Solver, r.TimeS, r.SMTBytes, r.Obl.Src})
		if len(samples) < 4 && hasTag(r.Obl.Tags, P) {
			goal := r.Obl.Goal.S
			if len(goal) > 1500 {
				goal = goal[:1500] + " ..."
			}
			samples = append(samples, map[string]interface{}{"obligation": r.Obl.Name, "kind": r.Obl.Kind, "clause": r.Obl.Src, "path_condition": truncate(r.Obl.PC.S, 200), "goal_smt": goal, "result": r.Status, "solver": r.Solver})
		}
	}
	if len(samples) == 0 {
		for _, r := range sres {
			if len(samples) < 3 && !r.Obl.Cover {
				samples = append(samples, map[string]interface{}{"obligation": r.Obl.Name, "kind": r.Obl.Kind, "clause": r.Obl.Src, "result": r.Status})
			}
		}
	}
	var funcs []funcEvidence
	assume := map[string]bool{}
	trusted := map[string]bool{
		"go/packages + go/types + go/ssa (golang.org/x/tools v0.29.0): SSA in NaiveForm is taken as the meaning of the source":                                   true,
		"hv's SSA->SMT translation (bit-vector integers, IEEE-754 binary64 via SMT FloatingPoint with RNE, field-indexed heap, maps as (presence,value) arrays)": true,
		"SMT solvers z3 4.8.12, z3 5.1.0 (z3-new), cvc5 1.0.x: an obligation counts as discharged when the first output line of a solver is unsat":               true,
		"amd64 semantics of float64->int conversion (cvttsd2si: NaN/out-of-range -> 0x8000000000000000)":                                                         true,
		"partial correctness: postconditions are proved for normal returns; termination only where stated":                                                       true,
		"induction over the event history (invariant established by NewDevice and preserved by every step) is a meta-argument, not machine-checked":              true,
	}
	for _, k := range cone {
		fr := results[k]
		fc := eng.cf.Funcs[k]
		funcs = append(funcs, funcEvidence{fr.Name, fr.SrcFile, fmt.Sprintf("%d-%d", fr.SrcStart, fr.SrcEnd), fr.SrcHash, fr.NInstr, fc != nil && fc.Trusted})
		for _, t := range fr.Trusted {
			trusted[t] = true
		}
		for _, t := range fr.Externs {
			assume["assumed (unverified) behaviour of callee: "+t] = true
		}
		for _, t := range fr.Dropped {
			assume["dropped/abstracted: "+t] = true
		}
	}
	for _, fr := range lemmas {
		for _, t := range fr.Trusted {
			trusted[t] = true
		}
	}
	for _, n := range eng.notes {
		assume["note: "+n] = true
	}
	assume["logging (zap, fmt.Sprintf used for log text, (*Device).logFields) is treated as terminating, non-panicking and without effect on modelled state"] = true
	var tb, as []string
	for k := range trusted {
		tb = append(tb, k)
	}
	for k := range assume {
		as = append(as, k)
	}
	sort.Strings(tb)
	sort.Strings(as)
	cov := map[string]interface{}{
		"obligations":              total,
		"discharged":               discharged,
		"checker_cmd":              fmt.Sprintf("/verif/bin/hv check --property %s --tier %s", P, tier),
		"trusted_base":             tb,
		"samples":                  samples,
		"functions_under_contract": funcs,
		"per_clause":               groupObls(obls),
		"solver_time_s":            solverTime,
		"back_ends":                "stage 1: z3-new 5.1.0 alone for 3 s; stage 2: portfolio of z3-new with six random seeds (name~k), z3 4.8.12 and cvc5 1.0 raced per obligation; first `unsat` discharges, any `sat` is a counterexample (thorough: a second solver family is given a grace period to confirm)",
		"contract_files":           eng.contractFiles,
		"integers":                 "exact fixed-width bit-vectors with Go wrap-around; float64 exact IEEE-754",
	}
	if len(pc.NotDecided) > 0 {
		cov["clauses_not_decided"] = pc.NotDecided
	}
	if len(pc.Bounded) > 0 {
		cov["bounded_clauses"] = pc.Bounded
	}
	if len(evScans) > 0 {
		cov["mechanical_scans"] = evScans
	}
	if len(evStandins) > 0 {
		cov["bounded_standins"] = evStandins
	}
	if len(undecided) > 0 {
		cov["undecided"] = undecided
	}
	if total == 0 {
		cov["obligations"] = 0
		cov["discharged"] = 0
	}
	ev := map[string]interface{}{
		"property_id": P,
		"tier":        tier,
		"seed":        seed,
		"level":       "proof",
		"coverage":    cov,
		"assumptions": as,
		"wall_s":      wall,
		"violations":  violations,
	}
	os.MkdirAll(filepath.Join(outRoot(), "evidence"), 0o755)
	data, _ := json.MarshalIndent(ev, "", " ")
	os.WriteFile(filepath.Join(outRoot(), "evidence", P+".json"), data, 0o644)
}

type clauseEvidence struct {
	Clause      string             `json:"clause_or_site"`
	Kind        string             `json:"kind"`
	Func        string             `json:"function"`
	Tags        []string           `json:"tags,omitempty"`
	Text        string             `json:"text,omitempty"`
	Obligations int                `json:"obligations"`
	Discharged  int                `json:"discharged"`
	Solvers     map[string]int     `json:"answered_first_by"`
	MaxTimeS    float64            `json:"max_time_s"`
	SumTimeS    float64            `json:"sum_time_s"`
	NotOK       []string           `json:"not_discharged,omitempty"`
}

// groupObls: one entry per contract clause / site (an obligation name is clause[@pathN][/conjunct][#site-ordinal])
func groupObls(obls []oblEvidence) []*clauseEvidence {
	idx := map[string]*clauseEvidence{}
	var order []*clauseEvidence
	for _, o := range obls {
		stem := o.Name
		if i := strings.IndexAny(stem, "@/"); i >= 0 {
			stem = stem[:i]
		}
		key := o.Func + "|" + stem + "|" + o.Kind
		c := idx[key]
		if c == nil {
			c = &clauseEvidence{Clause: stem, Kind: o.Kind, Func: o.Func, Tags: o.Tags, Text: o.Clause, Solvers: map[string]int{}}
			idx[key] = c
			order = append(order, c)
		}
		c.Obligations++
		if o.Status == "discharged" || o.Status == "cover-ok" {
			c.Discharged++
		} else {
			c.NotOK = append(c.NotOK, o.Name+": "+o.Status)
		}
		c.Solvers[o.Solver]++
		c.SumTimeS += o.TimeS
		if o.TimeS > c.MaxTimeS {
			c.MaxTimeS = o.TimeS
		}
	}
	return order
}

func truncate(s string, n int) string {
	if len(s) > n {
		return s[:n] + " ..."
	}
	return s
}

// ---- replay files

type ReplayFile struct {
	Property   string            `json:"property"`
	Obligation string            `json:"obligation"`
	Kind       string            `json:"kind"`
	Function   string            `json:"function"`
	Clause     string            `json:"clause"`
	Position   string            `json:"position"`
	Tags       []string          `json:"tags"`
	Status     string            `json:"status"`
	Solver     string            `json:"solver"`
	SolverRaw  string            `json:"solver_output"`
	Model      map[string]string `json:"model,omitempty"`
	Replayed   bool              `json:"replayed_on_real_code"`
	ReplayNote string            `json:"replay_note"`
	ReplayTest string            `json:"replay_test_source,omitempty"`
	ReplayPkg  string            `json:"replay_package,omitempty"`
	ReplayOut  string            `json:"replay_output,omitempty"`
}

func writeReplay(P string, r *SolveResult, eng *Engine) string {
	dir := filepath.Join(outRoot(), "replays", P)
	os.MkdirAll(dir, 0o755)
	path := filepath.Join(dir, sanitize(r.Obl.Name)+".replay.json")
	rf := ReplayFile{Property: P, Obligation: r.Obl.Name, Kind: r.Obl.Kind, Function: r.Obl.Func, Clause: r.Obl.Src, Position: r.Obl.Pos, Tags: r.Obl.Tags,
		Status: r.Status, Solver: r.Solver, SolverRaw: truncate(r.Output, 20000), Model: r.Model}
	if r.Status == "failed-sat" && r.Model != nil {
		tryReplay(&rf, r, eng)
		if !rf.Replayed && rf.ReplayTest == "" {
			tryReplayMethod(&rf, r, eng)
		}
	} else {
		rf.ReplayNote = "no model: the obligation, discharged on the unchanged tree, is no longer discharged (solver answers: " + r.Solver + ")"
	}
	data, _ := json.MarshalIndent(rf, "", " ")
	os.WriteFile(path, data, 0o644)
	return path
}

func replayConfirmed(path string) bool {
	data, err := os.ReadFile(path)
	if err != nil {
		return false
	}
	var rf ReplayFile
	if json.Unmarshal(data, &rf) != nil {
		return false
	}
	return rf.Replayed
}

func cmdReplay(args []string) int {
	if len(args) < 1 {
		fmt.Fprintln(os.Stderr, "usage: hv replay <file>")
		return 2
	}
	data, err := os.ReadFile(args[0])
	if err != nil {
		fmt.Fprintln(os.Stderr, err)
		return 2
	}
	var rf ReplayFile
	if err := json.Unmarshal(data, &rf); err != nil {
		fmt.Fprintln(os.Stderr, err)
		return 2
	}
	fmt.Printf("obligation: %s\nclause: %s\nstatus: %s (%s)\n", rf.Obligation, rf.Clause, rf.Status, rf.Solver)
	if rf.ReplayTest == "" {
		fmt.Println("no replay test recorded:", rf.ReplayNote)
		return 1
	}
	out, failed := runReplayTest(rf.ReplayPkg, rf.ReplayTest)
	fmt.Println(out)
	fmt.Println("recorded verdict:", rf.ReplayNote)
	// conformance replays carry their own comparison: re-evaluated on the tree as it is now
	for _, ln := range strings.Split(out, "\n") {
		if strings.HasPrefix(ln, "HV-REPLAY ") && strings.Contains(ln, "\"sends_agree\"") {
			var o struct {
				Panic       string `json:"panic"`
				SendsAgree  bool   `json:"sends_agree"`
				WritesAgree bool   `json:"writes_agree"`
			}
			if json.Unmarshal([]byte(ln[len("HV-REPLAY "):]), &o) == nil {
				if o.Panic == "" && o.SendsAgree && o.WritesAgree {
					fmt.Println("REPLAYED: on the current tree the real code performs the counterexample's run (same sends, same writes)")
					return 1
				}
				fmt.Println("not reproduced on the current tree: the real run differs from the counterexample's prediction")
				return 0
			}
		}
	}
	if failed || rf.Replayed {
		fmt.Println("REPLAYED: the real code violates the clause on this input")
		return 1
	}
	fmt.Println("not reproduced on the current tree")
	return 0
}

var _ = strings.TrimSpace
