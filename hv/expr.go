package main

// Spec-expression language: lexer + Pratt parser.
// Syntax is Go-like with ==>, <==>, forall/exists, old(), let..in, if..then..else.

import (
	"fmt"
	"strings"
	"unicode"
)

type tokKind int

const (
	tEOF tokKind = iota
	tIdent
	tInt
	tFloat
	tStr
	tOp
)

type tok struct {
	k   tokKind
	s   string
	pos int
}

func lex(src string) ([]tok, error) {
	var toks []tok
	i := 0
	n := len(src)
	ops := []string{"<==>", "==>", "::", ":=", "&&", "||", "==", "!=", "<=", ">=", "<<", ">>", "&^", "++",
		"+", "-", "*", "/", "%", "&", "|", "^", "<", ">", "!", "(", ")", "[", "]", "{", "}", ",", ".", ";", ":", "=", "?"}
	for i < n {
		c := src[i]
		if c == ' ' || c == '\t' || c == '\n' || c == '\r' {
			i++
			continue
		}
		if unicode.IsLetter(rune(c)) || c == '_' || c == '$' {
			j := i
			for j < n && (unicode.IsLetter(rune(src[j])) || unicode.IsDigit(rune(src[j])) || src[j] == '_' || src[j] == '$') {
				j++
			}
			toks = append(toks, tok{tIdent, src[i:j], i})
			i = j
			continue
		}
		if unicode.IsDigit(rune(c)) {
			j := i
			isFloat := false
			if c == '0' && j+1 < n && (src[j+1] == 'x' || src[j+1] == 'X' || src[j+1] == 'b') {
				j += 2
				for j < n && (unicode.IsDigit(rune(src[j])) || strings.ContainsRune("abcdefABCDEF_", rune(src[j]))) {
					j++
				}
			} else {
				for j < n && (unicode.IsDigit(rune(src[j])) || src[j] == '_') {
					j++
				}
				if j < n && src[j] == '.' && j+1 < n && unicode.IsDigit(rune(src[j+1])) {
					isFloat = true
					j++
					for j < n && unicode.IsDigit(rune(src[j])) {
						j++
					}
				}
				if j < n && (src[j] == 'e' || src[j] == 'E') {
					isFloat = true
					j++
					if j < n && (src[j] == '+' || src[j] == '-') {
						j++
					}
					for j < n && unicode.IsDigit(rune(src[j])) {
						j++
					}
				}
			}
			k := tInt
			if isFloat {
				k = tFloat
			}
			toks = append(toks, tok{k, strings.ReplaceAll(src[i:j], "_", ""), i})
			i = j
			continue
		}
		if c == '"' {
			j := i + 1
			var sb strings.Builder
			for j < n && src[j] != '"' {
				if src[j] == '\\' && j+1 < n {
					j++
					switch src[j] {
					case 'n':
						sb.WriteByte('\n')
					case 't':
						sb.WriteByte('\t')
					default:
						sb.WriteByte(src[j])
					}
					j++
					continue
				}
				sb.WriteByte(src[j])
				j++
			}
			if j >= n {
				return nil, fmt.Errorf("unterminated string at %d", i)
			}
			toks = append(toks, tok{tStr, sb.String(), i})
			i = j + 1
			continue
		}
		matched := false
		for _, op := range ops {
			if strings.HasPrefix(src[i:], op) {
				toks = append(toks, tok{tOp, op, i})
				i += len(op)
				matched = true
				break
			}
		}
		if !matched {
			return nil, fmt.Errorf("unexpected character %q at %d in %q", c, i, src)
		}
	}
	toks = append(toks, tok{tEOF, "", n})
	return toks, nil
}

// ---- AST

type Expr interface{ String() string }

type (
	EIdent struct{ Name string }
	EInt   struct{ V string }
	EFloat struct{ V string }
	EStr   struct{ V string }
	EUnary struct {
		Op string
		X  Expr
	}
	EBinary struct {
		Op   string
		X, Y Expr
	}
	ECall struct {
		Fn   string
		Args []Expr
	}
	ESelect struct {
		X     Expr
		Field string
	}
	EIndex struct {
		X, I Expr
	}
	EQuant struct {
		Forall bool
		Vars   []QVar
		Body   Expr
		Pat1   bool // `forallp`: give an explicit pattern even when there is a single bound variable
	}
	EIte struct{ C, T, E Expr }
	ELet struct {
		Name string
		V    Expr
		Body Expr
	}
)

type QVar struct {
	Name string
	Type string
}

func (e *EIdent) String() string  { return e.Name }
func (e *EInt) String() string    { return e.V }
func (e *EFloat) String() string  { return e.V }
func (e *EStr) String() string    { return fmt.Sprintf("%q", e.V) }
func (e *EUnary) String() string  { return e.Op + e.X.String() }
func (e *EBinary) String() string { return "(" + e.X.String() + " " + e.Op + " " + e.Y.String() + ")" }
func (e *ECall) String() string {
	var a []string
	for _, x := range e.Args {
		a = append(a, x.String())
	}
	return e.Fn + "(" + strings.Join(a, ", ") + ")"
}
func (e *ESelect) String() string { return e.X.String() + "." + e.Field }
func (e *EIndex) String() string  { return e.X.String() + "[" + e.I.String() + "]" }
func (e *EQuant) String() string {
	q := "exists"
	if e.Forall {
		q = "forall"
	}
	var v []string
	for _, x := range e.Vars {
		v = append(v, x.Name+" "+x.Type)
	}
	return "(" + q + " " + strings.Join(v, ", ") + " :: " + e.Body.String() + ")"
}
func (e *EIte) String() string {
	return "(if " + e.C.String() + " then " + e.T.String() + " else " + e.E.String() + ")"
}
func (e *ELet) String() string {
	return "(let " + e.Name + " := " + e.V.String() + " in " + e.Body.String() + ")"
}

// ---- parser

type parser struct {
	toks []tok
	p    int
	src  string
}

func parseExpr(src string) (Expr, error) {
	toks, err := lex(src)
	if err != nil {
		return nil, err
	}
	ps := &parser{toks: toks, src: src}
	e, err := ps.expr(0)
	if err != nil {
		return nil, err
	}
	if ps.peek().k != tEOF {
		return nil, fmt.Errorf("trailing input at %d: %q in %q", ps.peek().pos, ps.peek().s, src)
	}
	return e, nil
}

func (ps *parser) peek() tok { return ps.toks[ps.p] }
func (ps *parser) next() tok { t := ps.toks[ps.p]; ps.p++; return t }
func (ps *parser) isOp(s string) bool {
	t := ps.peek()
	return t.k == tOp && t.s == s
}
func (ps *parser) isKw(s string) bool {
	t := ps.peek()
	return t.k == tIdent && t.s == s
}
func (ps *parser) expectOp(s string) error {
	if !ps.isOp(s) {
		return fmt.Errorf("expected %q at %d, got %q in %q", s, ps.peek().pos, ps.peek().s, ps.src)
	}
	ps.p++
	return nil
}

// binding powers (left)
var binPrec = map[string]int{
	"<==>": 1, "==>": 2, "||": 3, "&&": 4,
	"==": 5, "!=": 5, "<": 5, "<=": 5, ">": 5, ">=": 5,
	"+": 6, "-": 6, "|": 6, "^": 6, "++": 6,
	"*": 7, "/": 7, "%": 7, "<<": 7, ">>": 7, "&": 7, "&^": 7,
}

func (ps *parser) expr(minPrec int) (Expr, error) {
	lhs, err := ps.unary()
	if err != nil {
		return nil, err
	}
	for {
		t := ps.peek()
		if t.k != tOp {
			break
		}
		prec, ok := binPrec[t.s]
		if !ok || prec < minPrec {
			break
		}
		ps.p++
		var rhs Expr
		if t.s == "==>" || t.s == "<==>" {
			rhs, err = ps.expr(prec) // right assoc
		} else {
			rhs, err = ps.expr(prec + 1)
		}
		if err != nil {
			return nil, err
		}
		lhs = &EBinary{t.s, lhs, rhs}
	}
	return lhs, nil
}

func (ps *parser) unary() (Expr, error) {
	t := ps.peek()
	if t.k == tOp && (t.s == "!" || t.s == "-" || t.s == "^") {
		ps.p++
		x, err := ps.unary()
		if err != nil {
			return nil, err
		}
		return &EUnary{t.s, x}, nil
	}
	return ps.postfix()
}

func (ps *parser) typeName() (string, error) {
	// type syntax: ident | ident.ident | map[T]T | set[T] | []T | [N]T
	t := ps.peek()
	if t.k == tOp && t.s == "[" {
		ps.p++
		if ps.isOp("]") {
			ps.p++
			el, err := ps.typeName()
			if err != nil {
				return "", err
			}
			return "[]" + el, nil
		}
		n := ps.next()
		if err := ps.expectOp("]"); err != nil {
			return "", err
		}
		el, err := ps.typeName()
		if err != nil {
			return "", err
		}
		return "[" + n.s + "]" + el, nil
	}
	if t.k == tOp && t.s == "*" {
		ps.p++
		el, err := ps.typeName()
		if err != nil {
			return "", err
		}
		return "*" + el, nil
	}
	if t.k != tIdent {
		return "", fmt.Errorf("expected type at %d in %q", t.pos, ps.src)
	}
	ps.p++
	name := t.s
	if name == "map" || name == "set" {
		if err := ps.expectOp("["); err != nil {
			return "", err
		}
		k, err := ps.typeName()
		if err != nil {
			return "", err
		}
		if err := ps.expectOp("]"); err != nil {
			return "", err
		}
		if name == "set" {
			return "set[" + k + "]", nil
		}
		v, err := ps.typeName()
		if err != nil {
			return "", err
		}
		return "map[" + k + "]" + v, nil
	}
	if ps.isOp(".") {
		ps.p++
		t2 := ps.next()
		name = name + "." + t2.s
	}
	return name, nil
}

func (ps *parser) postfix() (Expr, error) {
	x, err := ps.primary()
	if err != nil {
		return nil, err
	}
	for {
		if ps.isOp(".") {
			ps.p++
			t := ps.next()
			if t.k != tIdent && t.k != tInt {
				return nil, fmt.Errorf("expected field name at %d in %q", t.pos, ps.src)
			}
			x = &ESelect{x, t.s}
			continue
		}
		if ps.isOp("[") {
			ps.p++
			i, err := ps.expr(0)
			if err != nil {
				return nil, err
			}
			if err := ps.expectOp("]"); err != nil {
				return nil, err
			}
			x = &EIndex{x, i}
			continue
		}
		break
	}
	return x, nil
}

func (ps *parser) primary() (Expr, error) {
	t := ps.next()
	switch t.k {
	case tInt:
		return &EInt{t.s}, nil
	case tFloat:
		return &EFloat{t.s}, nil
	case tStr:
		return &EStr{t.s}, nil
	case tOp:
		if t.s == "(" {
			e, err := ps.expr(0)
			if err != nil {
				return nil, err
			}
			if err := ps.expectOp(")"); err != nil {
				return nil, err
			}
			return e, nil
		}
		return nil, fmt.Errorf("unexpected %q at %d in %q", t.s, t.pos, ps.src)
	case tIdent:
		switch t.s {
		case "forall", "exists", "forallp":
			var vars []QVar
			for {
				n := ps.next()
				if n.k != tIdent {
					return nil, fmt.Errorf("expected var name at %d in %q", n.pos, ps.src)
				}
				ty, err := ps.typeName()
				if err != nil {
					return nil, err
				}
				vars = append(vars, QVar{n.s, ty})
				if ps.isOp(",") {
					ps.p++
					continue
				}
				break
			}
			if err := ps.expectOp("::"); err != nil {
				return nil, err
			}
			body, err := ps.expr(0)
			if err != nil {
				return nil, err
			}
			return &EQuant{Forall: t.s != "exists", Vars: vars, Body: body, Pat1: t.s == "forallp"}, nil
		case "if":
			c, err := ps.expr(0)
			if err != nil {
				return nil, err
			}
			if !ps.isKw("then") {
				return nil, fmt.Errorf("expected 'then' at %d in %q", ps.peek().pos, ps.src)
			}
			ps.p++
			a, err := ps.expr(0)
			if err != nil {
				return nil, err
			}
			if !ps.isKw("else") {
				return nil, fmt.Errorf("expected 'else' at %d in %q", ps.peek().pos, ps.src)
			}
			ps.p++
			b, err := ps.expr(0)
			if err != nil {
				return nil, err
			}
			return &EIte{c, a, b}, nil
		case "let":
			n := ps.next()
			if err := ps.expectOp(":="); err != nil {
				return nil, err
			}
			v, err := ps.expr(0)
			if err != nil {
				return nil, err
			}
			if !ps.isKw("in") {
				return nil, fmt.Errorf("expected 'in' at %d in %q", ps.peek().pos, ps.src)
			}
			ps.p++
			b, err := ps.expr(0)
			if err != nil {
				return nil, err
			}
			return &ELet{n.s, v, b}, nil
		}
		name := t.s
		// qualified identifier pkg.Name directly followed by '(' is a call of pkg.Name; otherwise selectors handle it
		if ps.isOp("(") {
			ps.p++
			var args []Expr
			if !ps.isOp(")") {
				for {
					a, err := ps.expr(0)
					if err != nil {
						return nil, err
					}
					args = append(args, a)
					if ps.isOp(",") {
						ps.p++
						continue
					}
					break
				}
			}
			if err := ps.expectOp(")"); err != nil {
				return nil, err
			}
			return &ECall{name, args}, nil
		}
		return &EIdent{name}, nil
	}
	return nil, fmt.Errorf("unexpected end of expression in %q", ps.src)
}
