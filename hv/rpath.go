package main

// Access paths for replay of counterexamples of METHODS and functions over structs (see replay2.go).
//
// While a function is executed symbolically, every scalar read of the pre-state that can be named by a path from a
// parameter (d.config.KeyMappings[i].Midi[name][code].Note), every send and every write through such a path is recorded as
// an Observation whose label carries the path as JSON; index and key terms and the path condition are observed as well.
// From the solver's model this gives (a) a concrete pre-state to build, (b) the effects the verifier predicts.

import (
	"encoding/json"
	"fmt"
	"go/token"
	"go/types"

	"golang.org/x/tools/go/ssa"
)

type rpSeg struct {
	F  string `json:"f,omitempty"`  // struct field
	I  *int   `json:"i,omitempty"`  // constant index (array element of a value)
	IT bool   `json:"it,omitempty"` // index given by observed term seg|j
	KT string `json:"kt,omitempty"` // map key of this basic kind, given by observed term seg|j
	t  *Term
}

type rpPath struct {
	Root string
	Segs []rpSeg
}

type rpMeta struct {
	ID   int     `json:"id"`
	Role string  `json:"role"` // load | present | store | delete | send
	Root string  `json:"root"`
	Segs []rpSeg `json:"segs"`
	Ty   string  `json:"ty"` // basic kind of the value: int8.. uint64, bool, string, float64, nonnil
}

func (p *rpPath) with(s rpSeg) *rpPath {
	n := &rpPath{Root: p.Root, Segs: append(append([]rpSeg(nil), p.Segs...), s)}
	return n
}

func basicName(t types.Type) string {
	b, ok := t.Underlying().(*types.Basic)
	if !ok {
		return ""
	}
	switch b.Kind() {
	case types.Bool, types.UntypedBool:
		return "bool"
	case types.String, types.UntypedString:
		return "string"
	case types.Float64, types.UntypedFloat:
		return "float64"
	case types.Int:
		return "int"
	case types.Int8:
		return "int8"
	case types.Int16:
		return "int16"
	case types.Int32:
		return "int32"
	case types.Int64:
		return "int64"
	case types.Uint, types.Uintptr:
		return "uint"
	case types.Uint8:
		return "uint8"
	case types.Uint16:
		return "uint16"
	case types.Uint32:
		return "uint32"
	case types.Uint64:
		return "uint64"
	}
	return ""
}

// valPath: the pre-state location whose content v is (nil when v is not such a value)
func (x *Exec) valPath(v ssa.Value, depth int) *rpPath {
	if depth > 24 {
		return nil
	}
	switch u := v.(type) {
	case *ssa.Parameter:
		return &rpPath{Root: u.Name()}
	case *ssa.UnOp:
		if u.Op != token.MUL {
			return nil
		}
		if al, ok := u.X.(*ssa.Alloc); ok {
			// a local variable assigned exactly once: the value it was assigned
			var only ssa.Value
			n := 0
			for _, r := range *al.Referrers() {
				if st, ok := r.(*ssa.Store); ok && st.Addr == al {
					n++
					only = st.Val
				}
			}
			if n == 1 {
				return x.valPath(only, depth+1)
			}
			return nil
		}
		return x.addrPath(u.X, depth+1)
	case *ssa.Field:
		p := x.valPath(u.X, depth+1)
		if p == nil {
			return nil
		}
		return p.with(rpSeg{F: u.X.Type().Underlying().(*types.Struct).Field(u.Field).Name()})
	case *ssa.Index:
		p := x.valPath(u.X, depth+1)
		if p == nil {
			return nil
		}
		t := x.idxTerm(u.Index)
		return p.with(rpSeg{IT: true, t: &t})
	case *ssa.Lookup:
		mt, ok := u.X.Type().Underlying().(*types.Map)
		if !ok {
			return nil
		}
		p := x.valPath(u.X, depth+1)
		kt := basicName(mt.Key())
		if p == nil || kt == "" {
			return nil
		}
		t := x.val(u.Index)
		return p.with(rpSeg{KT: kt, t: &t})
	case *ssa.Extract:
		if u.Index == 0 {
			if _, ok := u.Tuple.(*ssa.Lookup); ok {
				return x.valPath(u.Tuple, depth+1)
			}
		}
	}
	return nil
}

// addrPath: the location an address denotes
func (x *Exec) addrPath(a ssa.Value, depth int) *rpPath {
	if depth > 24 {
		return nil
	}
	switch u := a.(type) {
	case *ssa.FieldAddr:
		pt, ok := u.X.Type().Underlying().(*types.Pointer)
		if !ok {
			return nil
		}
		var p *rpPath
		if _, isAddr := u.X.(*ssa.FieldAddr); isAddr {
			p = x.addrPath(u.X, depth+1)
		} else if _, isAddr := u.X.(*ssa.IndexAddr); isAddr {
			p = x.addrPath(u.X, depth+1)
		} else {
			p = x.valPath(u.X, depth+1)
		}
		if p == nil {
			return nil
		}
		return p.with(rpSeg{F: pt.Elem().Underlying().(*types.Struct).Field(u.Field).Name()})
	case *ssa.IndexAddr:
		var p *rpPath
		switch u.X.(type) {
		case *ssa.FieldAddr, *ssa.IndexAddr:
			p = x.addrPath(u.X, depth+1) // pointer to array held in place
		default:
			p = x.valPath(u.X, depth+1)
		}
		if p == nil {
			return nil
		}
		t := x.idxTerm(u.Index)
		return p.with(rpSeg{IT: true, t: &t})
	}
	return nil
}

// rpObserve: observations for the scalar leaves of a value of Go type ty at path p
func (x *Exec) rpObserve(role string, p *rpPath, v Term, ty types.Type, pc Term, depth int) {
	if !x.rpOn || p == nil || depth > 4 || len(x.observe) > 1500 {
		return
	}
	switch {
	case v.Sort.isBV() || v.Sort == SBool || v.Sort == SF64 || v.Sort == SStr:
		bn := basicName(ty)
		if bn == "" {
			return
		}
		x.rpEmit(role, p, v, bn, pc)
	case v.Sort == SRef:
		if role == "load" {
			x.rpEmit(role, p, not(eq(v, tNil)), "nonnil", pc)
		}
	default:
		dt := x.w.dtOf(v.Sort)
		if dt == nil {
			return
		}
		switch u := ty.Underlying().(type) {
		case *types.Struct:
			for i := range dt.Fields {
				if i < u.NumFields() {
					x.rpObserve(role, p.with(rpSeg{F: u.Field(i).Name()}), x.w.dtSelect(v, i), u.Field(i).Type(), pc, depth+1)
				}
			}
		case *types.Array:
			for i := range dt.Fields {
				k := i
				x.rpObserve(role, p.with(rpSeg{I: &k}), x.w.dtSelect(v, i), u.Elem(), pc, depth+1)
			}
		}
	}
}

func (x *Exec) rpEmit(role string, p *rpPath, v Term, ty string, pc Term) {
	if !x.rpOn || p == nil {
		return
	}
	x.rpN++
	m := rpMeta{ID: x.rpN, Role: role, Root: p.Root, Segs: p.Segs, Ty: ty}
	js, _ := json.Marshal(m)
	x.observe = append(x.observe, Observation{Label: "rp|" + string(js) + "|val", T: v})
	x.observe = append(x.observe, Observation{Label: fmt.Sprintf("rp|%d|pc", m.ID), T: pc})
	for j, s := range p.Segs {
		if s.t != nil {
			x.observe = append(x.observe, Observation{Label: fmt.Sprintf("rp|%d|seg|%d", m.ID, j), T: *s.t})
		}
	}
}

// rpSendPath: the channel operand of a send is a load of a struct field reachable from a parameter
func (x *Exec) rpSend(i *ssa.Send, v Term, st *State, pc Term) {
	if !x.rpOn {
		return
	}
	p := x.valPath(i.Chan, 0)
	if p == nil {
		return
	}
	// the event is a byte slice: observe length and the first three bytes
	if v.Sort != SSlice {
		return
	}
	sl, ok := i.X.Type().Underlying().(*types.Slice)
	if !ok {
		return
	}
	if b, ok := sl.Elem().Underlying().(*types.Basic); !ok || b.Kind() != types.Uint8 {
		return
	}
	x.rpEmit("send", p.with(rpSeg{F: "#len"}), sliceLen(v), "int", pc)
	hn, hs := x.sliceHeap(sl.Elem())
	h := x.heapGet(st, hn, hs)
	for k := 0; k < 3; k++ {
		kk := k
		x.rpEmit("send", p.with(rpSeg{I: &kk}), sel(sel(h, sliceRef(v)), bvadd64(sliceOff(v), bvInt(64, int64(k)))), "uint8", pc)
	}
}

// rpReplayable: straight-line functions over parameters that are pointers to structs, scalars or strings, calling only
// externs: the symbolic execution is then an exact image of one run, so the model predicts the run's effects completely.
func (x *Exec) rpReplayable(fn *ssa.Function) bool {
	ok, _ := x.rpReplayableWhy(fn)
	return ok
}

func (x *Exec) rpReplayableWhy(fn *ssa.Function) (bool, string) {
	if fn == nil || len(fn.Blocks) == 0 || len(fn.FreeVars) > 0 {
		return false, "no body or closure"
	}
	for _, p := range fn.Params {
		switch u := p.Type().Underlying().(type) {
		case *types.Basic:
			if basicName(u) == "" {
				return false, "parameter of unsupported basic type"
			}
		case *types.Pointer:
			if _, ok := u.Elem().Underlying().(*types.Struct); !ok {
				return false, "parameter points to a non-struct"
			}
		default:
			return false, "parameter of unsupported type"
		}
	}
	if cfgHasCycle(fn) {
		return false, "loop"
	}
	for _, b := range fn.Blocks {
		for _, in := range b.Instrs {
			var cc *ssa.CallCommon
			switch c := in.(type) {
			case *ssa.Call:
				cc = &c.Call
			case *ssa.Go:
				return false, "go statement"
			case *ssa.Defer:
				cc = &c.Call
			case *ssa.Select, *ssa.Range, *ssa.Next:
				return false, "select/range"
			}
			if cc == nil {
				continue
			}
			if _, ok := cc.Value.(*ssa.Builtin); ok {
				continue
			}
			if cc.IsInvoke() {
				continue
			}
			callee := cc.StaticCallee()
			if callee == nil {
				return false, "dynamic call"
			}
			if cfc := x.eng.contractFor(callee); cfc != nil && !(cfc.HasMod && len(cfc.Modifies) == 0) {
				// a callee with effects is only known by its contract: the model does not fix its run
				return false, "callee with effects under contract"
			}
		}
	}
	return true, ""
}

func cfgHasCycle(fn *ssa.Function) bool {
	color := make([]int, len(fn.Blocks))
	var dfs func(b *ssa.BasicBlock) bool
	dfs = func(b *ssa.BasicBlock) bool {
		color[b.Index] = 1
		for _, s := range b.Succs {
			if color[s.Index] == 1 {
				return true
			}
			if color[s.Index] == 0 && dfs(s) {
				return true
			}
		}
		color[b.Index] = 2
		return false
	}
	return dfs(fn.Blocks[0])
}
