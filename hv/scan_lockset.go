package main

// Mechanical scan "guarded-access" (C16, reader side): a flow-sensitive must-lockset analysis of the goroutines that functions
// under contract start but that are not under contract themselves (the LED refresh loop). It is a static analysis, NOT a proof
// by contract: it is listed under mechanical_scans in the evidence and never counted as a discharged obligation.
//
// For such a function f with receiver d: forward dataflow over the SSA control-flow graph; the fact at a point is the set of
// mutex fields of d that are held on EVERY path to it (Lock adds, Unlock removes, joins intersect). Every instruction that
// reads or writes a field listed in a `guarded_by` declaration, or a map / slice obtained from one (lookup, range, next, index,
// update, delete), must be at a point where the guarding mutex is in the set.

import (
	"fmt"
	"go/token"
	"go/types"
	"sort"
	"strings"

	"golang.org/x/tools/go/ssa"
)

type lockset map[string]bool

func (l lockset) clone() lockset {
	n := lockset{}
	for k := range l {
		n[k] = true
	}
	return n
}

func intersect(a, b lockset) lockset {
	n := lockset{}
	for k := range a {
		if b[k] {
			n[k] = true
		}
	}
	return n
}

func sameSet(a, b lockset) bool {
	if len(a) != len(b) {
		return false
	}
	for k := range a {
		if !b[k] {
			return false
		}
	}
	return true
}

// mutexFieldOf: v is the value of d.<mutexField> for the function's first parameter d
func mutexFieldOf(fn *ssa.Function, v ssa.Value) string {
	base, _, f, ok := guardedBase(v)
	if !ok || !isFirstParam(fn, base) {
		return ""
	}
	return f
}

func isFirstParam(fn *ssa.Function, v ssa.Value) bool {
	if len(fn.Params) == 0 {
		return false
	}
	for depth := 0; depth < 4; depth++ {
		switch u := v.(type) {
		case *ssa.Parameter:
			return u == fn.Params[0]
		case *ssa.UnOp:
			// NaiveForm: the parameter is spilled into a local that is assigned once
			al, ok := u.X.(*ssa.Alloc)
			if !ok || u.Op != token.MUL {
				return false
			}
			var only ssa.Value
			n := 0
			for _, r := range *al.Referrers() {
				if st, ok := r.(*ssa.Store); ok && st.Addr == al {
					n++
					only = st.Val
				}
			}
			if n != 1 {
				return false
			}
			v = only
		default:
			return false
		}
	}
	return false
}

// guardedFieldOf: v is (derived from) the content of a guarded field of the first parameter; returns the field name
func guardedFieldOf(fn *ssa.Function, v ssa.Value) string {
	for depth := 0; depth < 8; depth++ {
		switch u := v.(type) {
		case *ssa.Range:
			v = u.X
			continue
		case *ssa.Next:
			v = u.Iter
			continue
		case *ssa.Extract:
			v = u.Tuple
			continue
		case *ssa.Index:
			v = u.X
			continue
		case *ssa.IndexAddr:
			v = u.X
			continue
		case *ssa.Slice:
			v = u.X
			continue
		}
		break
	}
	base, _, f, ok := guardedBase(v)
	if !ok || !isFirstParam(fn, base) {
		return ""
	}
	return f
}

func (e *Engine) scanGuardedAccess() ScanResult {
	res := ScanResult{Name: "guarded-access", What: "goroutines started by functions under contract that are not under contract themselves: must-lockset dataflow; every access to a guarded field of the receiver (or to a map / slice obtained from one) happens with its mutex held on every path"}
	mutexOf := map[string]string{} // struct.field -> mutex field
	for _, g := range e.cf.Guarded {
		for f := range g.Fields {
			mutexOf[g.Struct+"."+f] = g.Mutex
		}
	}
	// functions started with `go` from functions under contract
	var targets []*ssa.Function
	seen := map[*ssa.Function]bool{}
	for _, key := range e.cf.FuncOrder {
		fn := e.funcs[key]
		if fn == nil {
			continue
		}
		for _, b := range fn.Blocks {
			for _, in := range b.Instrs {
				g, ok := in.(*ssa.Go)
				if !ok {
					continue
				}
				callee := g.Call.StaticCallee()
				if callee == nil || seen[callee] || len(callee.Blocks) == 0 {
					continue
				}
				seen[callee] = true
				if e.contractFor(callee) == nil {
					targets = append(targets, callee)
				}
			}
		}
	}
	sort.Slice(targets, func(i, j int) bool { return targets[i].String() < targets[j].String() })
	for _, fn := range targets {
		res.Checked++
		res.Findings = append(res.Findings, e.locksetFunction(fn, mutexOf)...)
	}
	if len(targets) > 0 {
		var names []string
		for _, t := range targets {
			names = append(names, t.Name())
		}
		res.What += " [functions: " + strings.Join(names, ", ") + "]"
	}
	return res
}

func (e *Engine) locksetFunction(fn *ssa.Function, mutexOf map[string]string) []string {
	if len(fn.Params) == 0 {
		return nil
	}
	pt, ok := fn.Params[0].Type().Underlying().(*types.Pointer)
	if !ok {
		return nil
	}
	named, ok := pt.Elem().(*types.Named)
	if !ok {
		return nil
	}
	sname := named.Obj().Name()
	in := make([]lockset, len(fn.Blocks))
	visited := make([]bool, len(fn.Blocks))
	transfer := func(b *ssa.BasicBlock, l lockset, report func(pos token.Pos, what string)) lockset {
		l = l.clone()
		for _, ins := range b.Instrs {
			// accesses
			check := func(v ssa.Value, what string) {
				f := guardedFieldOf(fn, v)
				if f == "" {
					return
				}
				mu, guarded := mutexOf[sname+"."+f]
				if guarded && !l[mu] && report != nil {
					report(ins.Pos(), fmt.Sprintf("%s of %s.%s without %s held on every path", what, sname, f, mu))
				}
			}
			switch u := ins.(type) {
			case *ssa.UnOp:
				if u.Op == token.MUL {
					if fa, ok := u.X.(*ssa.FieldAddr); ok && isFirstParam(fn, fa.X) {
						check(u, "read")
					} else {
						check(u.X, "read through")
					}
				}
			case *ssa.Store:
				if fa, ok := u.Addr.(*ssa.FieldAddr); ok && isFirstParam(fn, fa.X) {
					f := pt.Elem().Underlying().(*types.Struct).Field(fa.Field).Name()
					if mu, guarded := mutexOf[sname+"."+f]; guarded && !l[mu] && report != nil {
						report(ins.Pos(), fmt.Sprintf("write of %s.%s without %s held on every path", sname, f, mu))
					}
				} else {
					check(u.Addr, "write through")
				}
			case *ssa.Lookup:
				check(u.X, "lookup in")
			case *ssa.Range:
				check(u.X, "iteration over")
			case *ssa.Next:
				check(u.Iter, "iteration over")
			case *ssa.MapUpdate:
				check(u.Map, "update of")
			case *ssa.Index:
				check(u.X, "index of")
			case *ssa.IndexAddr:
				check(u.X, "index of")
			case *ssa.Call:
				if b, ok := u.Call.Value.(*ssa.Builtin); ok && (b.Name() == "delete" || b.Name() == "len") && len(u.Call.Args) > 0 {
					check(u.Call.Args[0], b.Name()+" on")
				}
				if callee := u.Call.StaticCallee(); callee != nil && len(u.Call.Args) > 0 {
					switch callee.String() {
					case "(*sync.Mutex).Lock":
						if f := mutexFieldOf(fn, u.Call.Args[0]); f != "" {
							if l[f] && report != nil {
								report(ins.Pos(), "Lock of "+f+" while it is already held on every path (sync.Mutex is not re-entrant)")
							}
							l[f] = true
						}
					case "(*sync.Mutex).Unlock":
						if f := mutexFieldOf(fn, u.Call.Args[0]); f != "" {
							delete(l, f)
						}
					}
				}
			}
		}
		return l
	}
	// fixpoint (must analysis: start from "unvisited", intersect at joins)
	in[0] = lockset{}
	visited[0] = true
	work := []*ssa.BasicBlock{fn.Blocks[0]}
	for len(work) > 0 {
		b := work[0]
		work = work[1:]
		out := transfer(b, in[b.Index], nil)
		for _, s := range b.Succs {
			if !visited[s.Index] {
				visited[s.Index] = true
				in[s.Index] = out.clone()
				work = append(work, s)
				continue
			}
			n := intersect(in[s.Index], out)
			if !sameSet(n, in[s.Index]) {
				in[s.Index] = n
				work = append(work, s)
			}
		}
	}
	var findings []string
	seenF := map[string]bool{}
	for _, b := range fn.Blocks {
		if !visited[b.Index] {
			continue
		}
		transfer(b, in[b.Index], func(pos token.Pos, what string) {
			p := fn.Prog.Fset.Position(pos)
			msg := fmt.Sprintf("%s: %s:%d: %s", fn.Name(), shortPath(p.Filename), p.Line, what)
			if !seenF[msg] {
				seenF[msg] = true
				findings = append(findings, msg)
			}
		})
	}
	// locks still held at a return
	for _, b := range fn.Blocks {
		if !visited[b.Index] || len(b.Instrs) == 0 {
			continue
		}
		if _, ok := b.Instrs[len(b.Instrs)-1].(*ssa.Return); ok {
			out := transfer(b, in[b.Index], nil)
			for mu := range out {
				p := fn.Prog.Fset.Position(b.Instrs[len(b.Instrs)-1].Pos())
				findings = append(findings, fmt.Sprintf("%s: %s:%d: returns with %s still held", fn.Name(), shortPath(p.Filename), p.Line, mu))
			}
		}
	}
	// a goroutine that is handed a *sync.WaitGroup reports to it on every return path: `defer wg.Done()` in the entry block
	for _, p := range fn.Params {
		if typeKey(p.Type()) != "*sync.WaitGroup" {
			continue
		}
		ok := false
		for _, ins := range fn.Blocks[0].Instrs {
			if d, isDefer := ins.(*ssa.Defer); isDefer {
				if c := d.Call.StaticCallee(); c != nil && c.String() == "(*sync.WaitGroup).Done" {
					ok = true
				}
			}
		}
		if !ok {
			p0 := fn.Prog.Fset.Position(fn.Pos())
			findings = append(findings, fmt.Sprintf("%s: %s:%d: no `defer %s.Done()` at entry: some return path may not report to the WaitGroup", fn.Name(), shortPath(p0.Filename), p0.Line, p.Name()))
		}
	}
	sort.Strings(findings)
	return findings
}

// Mechanical scan "global-alias" (C16, cross-talk): a map, slice or pointer obtained from a package-level variable of the
// repository (directly or through lookup / index / range / a local it was assigned to) must not be stored into a struct
// field, a map or a slice: it would make state reachable from a device (or any other object) shared between all devices,
// which the global-write scan - it only sees writes that name the global - cannot notice.
func (e *Engine) scanGlobalAlias() ScanResult {
	res := ScanResult{Name: "global-alias", What: "no map / slice / pointer obtained from a package-level variable of the repository packages under contract is stored into a field, map or slice (state reachable from one device would be shared by all)"}
	isRef := func(t types.Type) bool {
		switch t.Underlying().(type) {
		case *types.Map, *types.Slice, *types.Pointer, *types.Chan:
			return true
		}
		return false
	}
	inScope := map[string]bool{}
	for _, rel := range contractPkgs {
		inScope[modPath+"/"+rel] = true
	}
	var fns []*ssa.Function
	for _, rel := range contractPkgs {
		sp := e.ssaPkg[modPath+"/"+rel]
		if sp == nil {
			continue
		}
		for _, m := range sp.Members {
			switch v := m.(type) {
			case *ssa.Function:
				fns = append(fns, v)
				fns = append(fns, v.AnonFuncs...)
			case *ssa.Type:
				for _, t := range []types.Type{v.Type(), types.NewPointer(v.Type())} {
					ms := e.prog.MethodSets.MethodSet(t)
					for i := 0; i < ms.Len(); i++ {
						if f := e.prog.MethodValue(ms.At(i)); f != nil && f.Pkg == sp {
							fns = append(fns, f)
							fns = append(fns, f.AnonFuncs...)
						}
					}
				}
			}
		}
	}
	seenFn := map[*ssa.Function]bool{}
	for _, fn := range fns {
		if seenFn[fn] || len(fn.Blocks) == 0 || strings.HasPrefix(fn.Name(), "init") {
			continue
		}
		seenFn[fn] = true
		res.Checked++
		tainted := map[ssa.Value]string{}
		taintedAlloc := map[*ssa.Alloc]string{}
		for changed := true; changed; {
			changed = false
			mark := func(v ssa.Value, src string) {
				if _, ok := tainted[v]; !ok && src != "" {
					tainted[v] = src
					changed = true
				}
			}
			for _, b := range fn.Blocks {
				for _, in := range b.Instrs {
					switch u := in.(type) {
					case *ssa.UnOp:
						if u.Op != token.MUL {
							continue
						}
						if g, ok := u.X.(*ssa.Global); ok && g.Pkg != nil && inScope[g.Pkg.Pkg.Path()] && isRef(u.Type()) {
							mark(u, g.Pkg.Pkg.Name()+"."+g.Name())
						}
						if a, ok := u.X.(*ssa.Alloc); ok {
							mark(u, taintedAlloc[a])
						}
						if src, ok := tainted[u.X]; ok && isRef(u.Type()) {
							mark(u, src) // load through a tainted address
						}
					case *ssa.Lookup:
						if isRef(u.Type()) || u.CommaOk {
							mark(u, tainted[u.X])
						}
					case *ssa.Index:
						mark(u, tainted[u.X])
					case *ssa.IndexAddr:
						mark(u, tainted[u.X])
					case *ssa.FieldAddr:
						mark(u, tainted[u.X])
					case *ssa.Field:
						mark(u, tainted[u.X])
					case *ssa.Range:
						mark(u, tainted[u.X])
					case *ssa.Next:
						mark(u, tainted[u.Iter])
					case *ssa.Extract:
						if isRef(u.Type()) {
							mark(u, tainted[u.Tuple])
						}
					case *ssa.Slice:
						mark(u, tainted[u.X])
					case *ssa.Phi:
						for _, ed := range u.Edges {
							mark(u, tainted[ed])
						}
					case *ssa.Store:
						if a, ok := u.Addr.(*ssa.Alloc); ok {
							if src, ok := tainted[u.Val]; ok && taintedAlloc[a] == "" {
								taintedAlloc[a] = src
								changed = true
							}
						}
					}
				}
			}
		}
		report := func(pos token.Pos, what, src string) {
			p := fn.Prog.Fset.Position(pos)
			res.Findings = append(res.Findings, fmt.Sprintf("%s: %s:%d: %s obtained from package-level variable %s", fn.Name(), shortPath(p.Filename), p.Line, what, src))
		}
		for _, b := range fn.Blocks {
			for _, in := range b.Instrs {
				switch u := in.(type) {
				case *ssa.MapUpdate:
					if src, ok := tainted[u.Value]; ok && isRef(u.Value.Type()) {
						if _, fromTainted := tainted[u.Map]; !fromTainted {
							report(u.Pos(), "a map entry is set to a "+u.Value.Type().String(), src)
						}
					}
				case *ssa.Store:
					if _, local := u.Addr.(*ssa.Alloc); local {
						continue
					}
					if src, ok := tainted[u.Val]; ok && isRef(u.Val.Type()) {
						if _, fromTainted := tainted[u.Addr]; !fromTainted {
							report(u.Pos(), "a field or element is set to a "+u.Val.Type().String(), src)
						}
					}
				}
			}
		}
	}
	sort.Strings(res.Findings)
	return res
}
