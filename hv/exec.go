package main

// Symbolic execution of one SSA function against its contract: VC generation.

import (
	"fmt"
	"go/token"
	"go/types"
	"sort"
	"strings"

	"golang.org/x/tools/go/ssa"
)

type loopInfo struct {
	header   *ssa.BasicBlock
	num      int
	body     map[*ssa.BasicBlock]bool
	backs    []*ssa.BasicBlock // back-edge sources
	ann      *LoopAnn
	iter     ssa.Value  // Range instruction if this is a map-range loop
	idxPhi   *ssa.Phi   // range index phi of a slice-range loop
	idxAlloc *ssa.Alloc // range index local (NaiveForm)
	idxLen   ssa.Value  // the length the range index is compared with
	entryPC  Term
}

type boxedVal struct {
	T  Term
	Ty types.Type
}

type retPoint struct {
	block   *ssa.BasicBlock
	pc      Term
	st      *State
	results []Term
}

type Exec struct {
	eng *Engine
	w   *World
	vc  *VC
	fn  *ssa.Function
	fc  *FuncContract
	pkg *types.Package

	vals   map[ssa.Value]Term
	tuples map[ssa.Value][]Term
	iptr   map[string]Addr // interior pointers materialised as values

	heapSorts      map[string]Sort
	heapOrder      []string
	nilAxiom       map[string]bool
	cardAx         map[string]bool
	trusted        map[string]bool
	assumedExterns map[string]bool
	dropped        map[string]bool
	qn             int

	entry    *State
	start    *State // state at the first instruction (entry + ghost-entry code), nil = entry
	params   map[string]SVal
	lets     map[string]SVal
	exitSt   map[*ssa.BasicBlock]*State
	exitPC   map[*ssa.BasicBlock]Term
	edgeCond map[[2]*ssa.BasicBlock]Term
	loops    map[*ssa.BasicBlock]*loopInfo
	forced   map[*ssa.BasicBlock]*edgeState // discovery pass: forced entry
	order    []*ssa.BasicBlock
	rets     []retPoint
	escapes  map[*ssa.Alloc]bool
	nsafety  int
	observe  []Observation
	closures map[string]*ssa.MakeClosure
	slInv    map[string]bool
	boxOf    map[string]boxedVal
	curCall  *ssa.CallCommon
	defers   []deferRec // deferred extern calls of the entry block (applied at RunDefers, last first)
	rpOn     bool // record access-path observations for method replay (replay2.go)
	rpN      int
	cbPred   string // walkpost predicate of the callback passed to the extern being applied
	paramRefs []Term // references received as parameters (allocated at entry, hence always)
	writeLog  []heapWrite
	freshRefs map[string]bool // references allocated by this function
	allSorts map[string]Sort // never rolled back
	inlineStack []*ssa.Function // contract-less callees being executed in place
}

func (x *Exec) ghostInit(name string) Term {
	gd := x.eng.ghostDecl(name)
	ty := x.resolveType(gd.Type, x.pkg)
	return x.vc.named("G_"+name+"@0", x.w.sortOfS(ty))
}

func (x *Exec) ghostGet(st *State, name string) Term {
	if t, ok := st.ghosts[name]; ok {
		return t
	}
	return x.ghostInit(name)
}

func (x *Exec) globalGet(st *State, g *ssa.Global) Term {
	elem := g.Type().(*types.Pointer).Elem()
	name := "G:" + g.Pkg.Pkg.Name() + "." + g.Name()
	s := x.w.sortOf(elem)
	if t, ok := st.heaps[name]; ok {
		return t
	}
	if _, ok := x.heapSorts[name]; !ok {
		x.heapSorts[name] = s
		x.heapOrder = append(x.heapOrder, name)
		t := x.vc.named(heapSym(name)+"@0", s)
		x.eng.globalInit(x, g, t)
		return t
	}
	return x.vc.named(heapSym(name)+"@0", s)
}

// localByName: the local variable called name that is in scope at position `at` (the latest declaration before it);
// without a position, the first declaration.
func (x *Exec) localByName(fn *ssa.Function, name string) *ssa.Alloc {
	return x.localByNameAt(fn, name, token.NoPos)
}

func (x *Exec) localByNameAt(fn *ssa.Function, name string, at token.Pos) *ssa.Alloc {
	var first, best *ssa.Alloc
	for _, b := range fn.Blocks {
		for _, in := range b.Instrs {
			if a, ok := in.(*ssa.Alloc); ok && a.Comment == name {
				if first == nil || (a.Pos().IsValid() && a.Pos() < first.Pos()) {
					first = a
				}
				if at.IsValid() && a.Pos().IsValid() && a.Pos() <= at && (best == nil || a.Pos() > best.Pos()) {
					best = a
				}
			}
		}
	}
	if best != nil {
		return best
	}
	if first != nil {
		return first
	}
	return x.renamedLocal(fn, name, at)
}

// countingLoop: `for i := a; i < n; i += c` (c > 0) or `for i := a; i > n; i -= c`: the header compares a local that the loop
// changes only in its single back-edge block, by a positive constant step towards the bound, with a constant, a local the loop
// does not assign, or the length of such a local.
func countingLoop(li *loopInfo) bool {
	h := li.header
	if len(h.Instrs) == 0 || len(li.backs) != 1 {
		return false
	}
	iff, ok := h.Instrs[len(h.Instrs)-1].(*ssa.If)
	if !ok {
		return false
	}
	cmp, ok := iff.Cond.(*ssa.BinOp)
	if !ok || (cmp.Op != token.LSS && cmp.Op != token.GTR) {
		return false
	}
	loadOf := func(v ssa.Value) *ssa.Alloc {
		for {
			switch u := v.(type) {
			case *ssa.Convert:
				v = u.X
				continue
			case *ssa.UnOp:
				if u.Op == token.MUL {
					if a, ok := u.X.(*ssa.Alloc); ok {
						return a
					}
				}
			}
			return nil
		}
	}
	ctr := loadOf(cmp.X)
	if ctr == nil {
		return false
	}
	if b, ok := ctr.Type().(*types.Pointer).Elem().Underlying().(*types.Basic); !ok || b.Info()&types.IsInteger == 0 {
		return false
	}
	storedInLoop := func(a *ssa.Alloc) []*ssa.Store {
		var out []*ssa.Store
		for _, r := range *a.Referrers() {
			if st, ok := r.(*ssa.Store); ok && st.Addr == a && li.body[st.Block()] {
				out = append(out, st)
			}
		}
		return out
	}
	// the bound
	switch bnd := cmp.Y.(type) {
	case *ssa.Const:
	case *ssa.Call:
		bi, ok := bnd.Call.Value.(*ssa.Builtin)
		if !ok || bi.Name() != "len" || len(bnd.Call.Args) != 1 {
			return false
		}
		a := loadOf(bnd.Call.Args[0])
		if a == nil || len(storedInLoop(a)) > 0 {
			return false
		}
	default:
		a := loadOf(cmp.Y)
		if a == nil || len(storedInLoop(a)) > 0 {
			return false
		}
	}
	// the step
	sts := storedInLoop(ctr)
	if len(sts) != 1 || sts[0].Block() != li.backs[0] {
		return false
	}
	step, ok := sts[0].Val.(*ssa.BinOp)
	if !ok || loadOf(step.X) != ctr {
		return false
	}
	c, ok := step.Y.(*ssa.Const)
	if !ok || c.Value == nil {
		return false
	}
	k := c.Int64()
	switch {
	case cmp.Op == token.LSS && ((step.Op == token.ADD && k > 0) || (step.Op == token.SUB && k < 0)):
		return true
	case cmp.Op == token.GTR && ((step.Op == token.SUB && k > 0) || (step.Op == token.ADD && k < 0)):
		return true
	}
	return false
}

func sortedAllocs(fn *ssa.Function) []*ssa.Alloc {
	var as []*ssa.Alloc
	for _, b := range fn.Blocks {
		for _, in := range b.Instrs {
			if a, ok := in.(*ssa.Alloc); ok && a.Pos().IsValid() {
				as = append(as, a)
			}
		}
	}
	sort.SliceStable(as, func(i, j int) bool { return as[i].Pos() < as[j].Pos() })
	return as
}

// localDecls: the function's local variables (and other allocations with a source position) in declaration order
func localDecls(fn *ssa.Function) []string {
	var out []string
	for _, a := range sortedAllocs(fn) {
		out = append(out, a.Comment)
	}
	return out
}

// renamedLocal: the contract names a local that does not exist (any more): resolve it by its declaration position
// relative to the declarations that kept their names. Anything ambiguous leaves the name unresolved (UNDECIDED).
func (x *Exec) renamedLocal(fn *ssa.Function, name string, at token.Pos) *ssa.Alloc {
	if x.eng == nil || fn.Pkg == nil {
		return nil
	}
	key := fn.Pkg.Pkg.Path() + "#" + fn.RelString(fn.Pkg.Pkg)
	stored := x.eng.pinnedLocals[key]
	cur := sortedAllocs(fn)
	if len(stored) == 0 {
		return nil
	}
	// align the two declaration lists on the names they share (longest common subsequence); an unmatched stretch of the
	// same length on both sides is a run of renames, a stretch present on one side only is an insertion or a deletion;
	// a stretch of different non-zero lengths is ambiguous and resolves nothing
	n, m := len(stored), len(cur)
	lcs := make([][]int, n+1)
	for i := range lcs {
		lcs[i] = make([]int, m+1)
	}
	for i := n - 1; i >= 0; i-- {
		for j := m - 1; j >= 0; j-- {
			if stored[i] == cur[j].Comment {
				lcs[i][j] = lcs[i+1][j+1] + 1
			} else if lcs[i+1][j] >= lcs[i][j+1] {
				lcs[i][j] = lcs[i+1][j]
			} else {
				lcs[i][j] = lcs[i][j+1]
			}
		}
	}
	mapTo := make([]int, n) // stored index -> current index, -1 = unresolved
	for i := range mapTo {
		mapTo[i] = -1
	}
	i, j := 0, 0
	flush := func(i1, i2, j1, j2 int) {
		if i2-i1 == j2-j1 {
			for k := 0; k < i2-i1; k++ {
				mapTo[i1+k] = j1 + k
			}
		}
	}
	si, sj := 0, 0
	for i < n && j < m {
		switch {
		case stored[i] == cur[j].Comment:
			flush(si, i, sj, j)
			i++
			j++
			si, sj = i, j
		case lcs[i+1][j] >= lcs[i][j+1]:
			i++
		default:
			j++
		}
	}
	flush(si, n, sj, m)
	var first, best *ssa.Alloc
	for i, nm := range stored {
		if nm != name || mapTo[i] < 0 {
			continue
		}
		a := cur[mapTo[i]]
		if first == nil {
			first = a
		}
		if at.IsValid() && a.Pos() <= at && (best == nil || a.Pos() > best.Pos()) {
			best = a
		}
	}
	pick := best
	if pick == nil {
		pick = first
	}
	if pick != nil && x.dropped != nil {
		x.dropped["contract local `"+name+"` of "+fn.Name()+" resolved to the renamed local `"+pick.Comment+"` (same position between unchanged declarations)"] = true
	}
	return pick
}

// ---- escape analysis for local allocs

func (x *Exec) computeEscapes() {
	x.escapes = map[*ssa.Alloc]bool{}
	var addrOnly func(v ssa.Value, seen map[ssa.Value]bool) bool
	addrOnly = func(v ssa.Value, seen map[ssa.Value]bool) bool {
		if seen[v] {
			return true
		}
		seen[v] = true
		refs := v.Referrers()
		if refs == nil {
			return true
		}
		for _, r := range *refs {
			switch u := r.(type) {
			case *ssa.Store:
				if u.Val == v {
					return false
				}
			case *ssa.UnOp:
				if u.Op != token.MUL {
					return false
				}
			case *ssa.FieldAddr:
				if !addrOnly(u, seen) {
					return false
				}
			case *ssa.IndexAddr:
				if u.X != v || !addrOnly(u, seen) {
					return false
				}
			case *ssa.DebugRef:
			case *ssa.Slice:
				// slicing a local array (varargs): the slice is only read by logging/externs
				if !x.sliceOnlyToExterns(u) {
					return false
				}
			case *ssa.Call:
				// receiver/arg of a side-effect-free extern taking the address: value semantics
				if !x.isValueExtern(u) {
					return false
				}
			default:
				return false
			}
		}
		return true
	}
	for _, b := range x.fn.Blocks {
		for _, in := range b.Instrs {
			if a, ok := in.(*ssa.Alloc); ok {
				if !addrOnly(a, map[ssa.Value]bool{}) {
					x.escapes[a] = true
				}
			}
		}
	}
}

func (x *Exec) isValueExtern(c *ssa.Call) bool {
	callee := c.Call.StaticCallee()
	if callee == nil {
		return false
	}
	if x.eng.contractFor(callee) != nil {
		return false
	}
	ex := x.eng.externFor(calleeName(callee))
	return ex != nil && (ex.Kind == "fn" || ex.Kind == "havoc" || ex.Kind == "log")
}

func (x *Exec) sliceOnlyToExterns(s *ssa.Slice) bool {
	refs := s.Referrers()
	if refs == nil {
		return true
	}
	for _, r := range *refs {
		switch u := r.(type) {
		case *ssa.Call:
			if !x.isValueExtern(u) {
				return false
			}
		case *ssa.DebugRef:
		default:
			return false
		}
	}
	return true
}

// ---- value lookup

func (x *Exec) val(v ssa.Value) Term {
	switch c := v.(type) {
	case *ssa.Const:
		return x.constTerm(c)
	case *ssa.Function:
		return x.w.fnLit(x.eng.canonFn(c))
	case *ssa.Global:
		ufail("address of global %s used as value", c.Name())
	case *ssa.Builtin:
		ufail("builtin %s used as value", c.Name())
	}
	if t, ok := x.vals[v]; ok {
		return t
	}
	// address-producing instruction used as a value: materialise an interior pointer
	switch v.(type) {
	case *ssa.FieldAddr, *ssa.IndexAddr, *ssa.Alloc:
		// Must be resolved against the current state by the caller (see argValue)
		ufail("interior pointer %s used as a value", v.Name())
	}
	if p, ok := v.(*ssa.Parameter); ok {
		ufail("parameter %s has no value", p.Name())
	}
	ufail("no value for %s = %s", v.Name(), v)
	return Term{}
}

func isAddrInstr(v ssa.Value) bool {
	switch v.(type) {
	case *ssa.FieldAddr, *ssa.IndexAddr:
		return true
	}
	return false
}

// resolveAddr computes the symbolic address denoted by a pointer-typed SSA value.
func (x *Exec) resolveAddr(v ssa.Value) Addr {
	switch a := v.(type) {
	case *ssa.Alloc:
		elem := a.Type().(*types.Pointer).Elem()
		if !x.escapes[a] {
			return Addr{Kind: aLocal, Local: a, Typ: elem}
		}
		return x.ptrAddr(x.val(a), elem)
	case *ssa.FieldAddr:
		base := x.resolveAddr(a.X)
		st := a.X.Type().Underlying().(*types.Pointer).Elem()
		ft := st.Underlying().(*types.Struct).Field(a.Field).Type()
		if base.Kind == aStructPtr {
			hn, hs := x.fieldHeap(base.Struct, a.Field)
			return Addr{Kind: aHeap, Heap: hn, HSort: hs, Ref: base.Ref, Typ: ft}
		}
		return base.withPath(PathElem{Field: a.Field}, ft)
	case *ssa.IndexAddr:
		switch xt := a.X.Type().Underlying().(type) {
		case *types.Slice:
			sl := x.val(a.X)
			idx := x.idxTerm(a.Index)
			hn, hs := x.sliceHeap(xt.Elem())
			return Addr{Kind: aSlice, Heap: hn, HSort: hs, Ref: sliceRef(sl), Idx: x.vc.define("ix", bvadd64(sliceOff(sl), idx)), Typ: xt.Elem()}
		case *types.Pointer:
			arr := xt.Elem().Underlying().(*types.Array)
			base := x.resolveAddr(a.X)
			if c, ok := a.Index.(*ssa.Const); ok {
				return base.withPath(PathElem{Field: int(c.Int64())}, arr.Elem())
			}
			idx := x.idxTerm(a.Index)
			return base.withPath(PathElem{Index: &idx}, arr.Elem())
		}
		ufail("IndexAddr on %s", a.X.Type())
	case *ssa.Global:
		elem := a.Type().(*types.Pointer).Elem()
		return Addr{Kind: aLocal, Typ: elem, Heap: "G:" + a.Pkg.Pkg.Name() + "." + a.Name(), Global: a}
	}
	// a pointer value
	pt, ok := v.Type().Underlying().(*types.Pointer)
	if !ok {
		ufail("resolveAddr of non-pointer %s", v)
	}
	r := x.val(v)
	if ad, ok := x.iptr[r.S]; ok {
		return ad
	}
	return x.ptrAddr(r, pt.Elem())
}

func (x *Exec) ptrAddr(ref Term, elem types.Type) Addr {
	if _, ok := elem.Underlying().(*types.Struct); ok {
		return Addr{Kind: aStructPtr, Ref: ref, Struct: elem, Typ: elem}
	}
	hn, hs := x.ptrHeap(elem)
	return Addr{Kind: aHeap, Heap: hn, HSort: hs, Ref: ref, Typ: elem}
}

func (x *Exec) idxTerm(v ssa.Value) Term {
	t := x.val(v)
	if t.Sort.bvWidth() != 64 {
		t = x.convInt(t, isSigned(v.Type()), 64)
	}
	return t
}

// ---- safety obligations

func (x *Exec) safety(st *State, pc Term, goal Term, what string, pos token.Pos) {
	if x.fc == nil || !x.fc.SafetyOn {
		return
	}
	x.nsafety++
	p := x.eng.prog.Fset.Position(pos)
	x.vc.oblige(&Obligation{
		Name: fmt.Sprintf("%s.safety.%s#%d", x.fc.Name, what, x.nsafety), Kind: "safety", Tags: x.fc.Safety,
		Goal: goal, PC: pc, Src: what, Pos: fmt.Sprintf("%s:%d", shortPath(p.Filename), p.Line), Observe: x.observations(),
	})
	// after the check, execution continues only if the operation did not panic
	x.vc.assume(implies(pc, goal), "no panic at "+what)
}

func shortPath(p string) string { return strings.TrimPrefix(p, repoRoot+"/") }

func (x *Exec) observations() []Observation {
	return append([]Observation(nil), x.observe...)
}

func (x *Exec) nonNil(st *State, pc Term, a Addr, pos token.Pos) {
	switch a.Kind {
	case aStructPtr, aHeap:
		if a.Ref.S != "nil" && strings.HasPrefix(a.Heap, "G:") {
			return
		}
		x.safety(st, pc, not(eq(a.Ref, tNil)), "nil-deref", pos)
	}
}

// ---- instruction execution

func (x *Exec) execInstr(in ssa.Instruction, st *State, pc Term) {
	switch i := in.(type) {
	case *ssa.DebugRef:
	case *ssa.Alloc:
		elem := i.Type().(*types.Pointer).Elem()
		if !x.escapes[i] {
			st.locals[i] = x.w.zeroOf(elem)
			return
		}
		r := x.allocRef(st, "new_"+i.Comment)
		x.vals[i] = r
		x.storeAddr(st, x.ptrAddr(r, elem), x.w.zeroOf(elem))
	case *ssa.Store:
		if g, ok := i.Addr.(*ssa.Global); ok {
			name := "G:" + g.Pkg.Pkg.Name() + "." + g.Name()
			x.globalGet(st, g)
			st.heaps[name] = x.operand(i.Val, st)
			return
		}
		a := x.resolveAddr(i.Addr)
		if !isAddrInstr(i.Addr) {
			x.nonNil(st, pc, a, i.Pos())
		}
		if fa, ok := i.Addr.(*ssa.FieldAddr); ok {
			if pt, ok := fa.X.Type().Underlying().(*types.Pointer); ok {
				if named, ok := pt.Elem().(*types.Named); ok {
					if _, isParamLike := fa.X.(*ssa.UnOp); isParamLike {
						x.guardedWrite(fa.X, named.Obj().Name(), pt.Elem().Underlying().(*types.Struct).Field(fa.Field).Name(), st, pc, i.Pos())
					}
				}
			}
		}
		if x.rpOn && a.Kind != aLocal {
			x.rpObserve("store", x.addrPath(i.Addr, 0), x.operand(i.Val, st), i.Val.Type(), pc, 0)
		}
		x.storeAddr(st, a, x.operand(i.Val, st))
	case *ssa.UnOp:
		x.execUnOp(i, st, pc)
	case *ssa.FieldAddr:
		if x.fc != nil && len(x.fc.Cuts) > 0 {
			stt := i.X.Type().Underlying().(*types.Pointer).Elem().Underlying().(*types.Struct)
			fname := stt.Field(i.Field).Name()
			fired := false
			for _, cut := range x.fc.Cuts {
				if cut.Hit || cut.Field != fname {
					continue
				}
				cut.Hit = true
				fired = true
				env := x.newEnv(st, x.entry)
				env.at = i.Pos()
				goal := x.evalClause(env, cut.C)
				// prove the fact separately on each path that meets at this join (smaller float queries)
				if ctxs := x.cutContexts(i); len(ctxs) > 1 {
					for k, cx := range ctxs {
						penv := x.newEnv(cx.st, x.entry)
						penv.at = i.Pos()
						pg := x.evalClause(penv, cut.C)
						x.vc.oblige(&Obligation{Name: fmt.Sprintf("%s@path%d", cut.C.Name, k+1), Kind: "cut", Tags: cut.C.Tags, Goal: pg, PC: cx.cond, Src: cut.C.Src, Pos: x.posStr(i.Pos()), Observe: x.observations(), Block: cx.blk, BlockSet: cx.hasBlk})
					}
				} else {
					x.vc.oblige(&Obligation{Name: cut.C.Name, Kind: "cut", Tags: cut.C.Tags, Goal: goal, PC: pc, Src: cut.C.Src, Pos: x.posStr(i.Pos()), Observe: x.observations()})
				}
				x.vc.assume(implies(pc, goal), "cut fact "+cut.C.Name)
			}
			if fired {
				x.vc.stage++
			}
		}
		if !isAddrInstr(i.X) {
			if _, isAlloc := i.X.(*ssa.Alloc); !isAlloc {
				a := x.resolveAddr(i.X)
				x.nonNil(st, pc, a, i.Pos())
			}
		}
	case *ssa.IndexAddr:
		if xt, ok := i.X.Type().Underlying().(*types.Slice); ok {
			_ = xt
			sl := x.val(i.X)
			idx := x.idxTerm(i.Index)
			x.sliceInv(sl)
			x.safety(st, pc, T(SBool, "(bvult %s %s)", idx.S, sliceLen(sl).S), "index", i.Pos())
		} else if pt, ok := i.X.Type().Underlying().(*types.Pointer); ok {
			arr := pt.Elem().Underlying().(*types.Array)
			if _, isConst := i.Index.(*ssa.Const); !isConst {
				idx := x.idxTerm(i.Index)
				x.safety(st, pc, T(SBool, "(bvult %s %s)", idx.S, bvInt(64, arr.Len()).S), "index", i.Pos())
			}
		}
	case *ssa.Field:
		v := x.val(i.X)
		x.vals[i] = x.w.dtSelect(v, i.Field)
	case *ssa.Index:
		v := x.val(i.X)
		switch i.X.Type().Underlying().(type) {
		case *types.Basic: // string index
			idx := x.idxTerm(i.Index)
			x.safety(st, pc, T(SBool, "(bvult %s (slen %s))", idx.S, v.S), "string-index", i.Pos())
			x.vals[i] = T(SBV(8), "(sbyte %s %s)", v.S, idx.S)
		case *types.Array:
			if c, ok := i.Index.(*ssa.Const); ok {
				x.vals[i] = x.w.dtSelect(v, int(c.Int64()))
			} else {
				idx := x.idxTerm(i.Index)
				x.vals[i] = x.project(v, []PathElem{{Index: &idx}})
			}
		default:
			ufail("Index on %s", i.X.Type())
		}
	case *ssa.BinOp:
		a, b := x.val(i.X), x.val(i.Y)
		if (i.Op == token.QUO || i.Op == token.REM) && a.Sort.isBV() {
			x.safety(st, pc, not(eq(b, bvInt(b.Sort.bvWidth(), 0))), "div-by-zero", i.Pos())
		}
		x.vals[i] = x.vc.define(i.Name(), x.binop(i.Op, a, b, i.X.Type(), i.Y.Type()))
	case *ssa.Convert:
		x.vals[i] = x.vc.define(i.Name(), x.convert(x.val(i.X), i.X.Type(), i.Type()))
	case *ssa.ChangeType:
		x.vals[i] = x.val(i.X)
	case *ssa.ChangeInterface:
		x.vals[i] = x.val(i.X)
	case *ssa.MakeInterface:
		v := x.operand(i.X, st)
		name := "box_" + sortID(v.Sort)
		x.w.declareUF(name, []Sort{v.Sort}, SRef)
		r := T(SRef, "(%s %s)", name, v.S)
		x.vc.assume(not(eq(r, tNil)), "boxed value is a non-nil interface")
		x.vals[i] = r
		x.boxOf[r.S] = boxedVal{v, i.X.Type()}
	case *ssa.Phi:
		// handled at block entry
	case *ssa.Extract:
		tp, ok := x.tuples[i.Tuple]
		if !ok {
			ufail("extract from unknown tuple %s", i.Tuple.Name())
		}
		x.vals[i] = tp[i.Index]
	case *ssa.Lookup:
		x.guardedRead(i.X, false, st, pc, i.Pos())
		x.execLookup(i, st, pc)
	case *ssa.MapUpdate:
		m := x.val(i.Map)
		mt := i.Map.Type().Underlying().(*types.Map)
		x.safety(st, pc, not(eq(m, tNil)), "nil-map-update", i.Pos())
		if b, sn, f, ok := guardedBase(i.Map); ok {
			x.guardedWrite(b, sn, f, st, pc, i.Pos())
		}
		{
			vv := x.operand(i.Value, st)
			x.siteAssertsAt("mapupdate", mt, m, x.val(i.Key), &vv, st, pc, i.Pos())
		}
		if x.rpOn {
			if mp := x.valPath(i.Map, 0); mp != nil && basicName(mt.Key()) != "" {
				kt := x.val(i.Key)
				x.rpObserve("store", mp.with(rpSeg{KT: basicName(mt.Key()), t: &kt}), x.operand(i.Value, st), mt.Elem(), pc, 0)
			}
		}
		x.mapStore(st, mt, m, x.val(i.Key), x.operand(i.Value, st))
	case *ssa.MakeMap:
		r := x.allocRef(st, "map")
		mt := i.Type().Underlying().(*types.Map)
		_, mp, _, mpS, ks, _ := x.mapHeaps(mt)
		x.heapSet(st, mp, sto(x.heapGet(st, mp, mpS), r, constArray(arraySort(ks, SBool), tFalse)))
		x.vals[i] = r
	case *ssa.MakeChan:
		x.vals[i] = x.allocRef(st, "chan")
	case *ssa.MakeSlice:
		r := x.allocRef(st, "slice")
		ln := x.idxTerm(i.Len)
		cp := x.idxTerm(i.Cap)
		x.safety(st, pc, T(SBool, "(and (bvsge %s (_ bv0 64)) (bvsle %s %s))", ln.S, ln.S, cp.S), "makeslice", i.Pos())
		et := i.Type().Underlying().(*types.Slice).Elem()
		hn, hs := x.sliceHeap(et)
		_, inner := hs.arrayParts()
		x.heapSet(st, hn, sto(x.heapGet(st, hn, hs), r, x.zeroArray(inner, x.w.zeroOf(et))))
		x.vals[i] = mkSlice(r, bvInt(64, 0), ln, cp)
	case *ssa.MakeClosure:
		fn := i.Fn.(*ssa.Function)
		if len(i.Bindings) == 0 {
			x.vals[i] = x.w.fnLit(x.eng.canonFn(fn))
		} else {
			r := x.vc.fresh("closure", SRef)
			x.vc.assume(not(eq(r, tNil)), "closure non-nil")
			x.closures[r.S] = i
			x.vals[i] = r
		}
	case *ssa.Slice:
		x.execSlice(i, st, pc)
	case *ssa.Call:
		x.execCall(i, &i.Call, st, pc)
	case *ssa.Go:
		x.dropped["go statement at "+x.posStr(i.Pos())+": spawned goroutine not executed in this thread"] = true
		x.execGo(i, st, pc)
		if x.eng.ghostDecl("concurrent") != nil {
			st.ghosts["concurrent"] = tTrue // from here on other goroutines of this device may run
		}
	case *ssa.Defer:
		if !x.recordDefer(i, st, pc) {
			x.dropped["defer at "+x.posStr(i.Pos())+": deferred call treated as effect-free on modelled state"] = true
		}
	case *ssa.RunDefers:
		x.runDefers(st, pc)
	case *ssa.Send:
		x.execSend(i, st, pc)
	case *ssa.Range:
		if _, ok := i.X.Type().Underlying().(*types.Map); !ok {
			ufail("range over %s", i.X.Type())
		}
		mt := i.X.Type().Underlying().(*types.Map)
		ks := x.w.sortOf(mt.Key())
		st.iters[i] = constArray(arraySort(ks, SBool), tFalse)
		x.vals[i] = x.val(i.X)
	case *ssa.Next:
		if r, ok := i.Iter.(*ssa.Range); ok {
			x.guardedRead(r.X, false, st, pc, r.Pos())
		}
		x.execNext(i, st, pc)
	case *ssa.Select:
		x.execSelect(i, st, pc)
	case *ssa.TypeAssert:
		ufail("type assertion at %s", x.posStr(i.Pos()))
	case *ssa.Panic:
		x.safety(st, pc, tFalse, "panic", i.Pos())
	case *ssa.Return, *ssa.If, *ssa.Jump:
		// handled by block driver
	default:
		ufail("instruction %T at %s", in, x.posStr(in.Pos()))
	}
}

func (x *Exec) posStr(p token.Pos) string {
	pp := x.eng.prog.Fset.Position(p)
	return fmt.Sprintf("%s:%d", shortPath(pp.Filename), pp.Line)
}

// operand: value of an SSA operand; address instructions used as values become interior pointers.
func (x *Exec) operand(v ssa.Value, st *State) Term {
	switch v.(type) {
	case *ssa.FieldAddr, *ssa.IndexAddr:
		if t, ok := x.vals[v]; ok {
			return t
		}
		a := x.resolveAddr(v)
		r := x.vc.fresh("iptr", SRef)
		x.vc.assume(not(eq(r, tNil)), "interior pointer non-nil")
		x.iptr[r.S] = a
		x.vals[v] = r
		return r
	case *ssa.Alloc:
		if t, ok := x.vals[v]; ok {
			return t
		}
		a := x.resolveAddr(v)
		r := x.vc.fresh("lptr", SRef)
		x.vc.assume(not(eq(r, tNil)), "local address non-nil")
		x.iptr[r.S] = a
		return r
	}
	return x.val(v)
}

// zeroArray: an array holding zero everywhere (cvc5 accepts const arrays of literal values only)
func (x *Exec) zeroArray(s Sort, zero Term) Term {
	if strings.HasPrefix(zero.S, "(_ bv") || zero.S == "false" || zero.S == "true" || strings.HasPrefix(zero.S, "(_ +zero") || zero.S == "nil" {
		if zero.S != "nil" {
			return constArray(s, zero)
		}
	}
	a := x.vc.fresh("zeroarr", s)
	ks, _ := s.arrayParts()
	x.qn++
	q := fmt.Sprintf("i!q%d", x.qn)
	x.vc.assume(T(SBool, "(forall ((%s %s)) (! (= (select %s %s) %s) :pattern ((select %s %s))))", q, ks, a.S, q, zero.S, a.S, q), "zero-initialised array")
	return a
}

// paramsStayAllocated: instances of allocation monotonicity for the references received as parameters
func (x *Exec) paramsStayAllocated(al Term) {
	for _, r := range x.paramRefs {
		x.vc.assume(or(eq(r, tNil), sel(al, r)), "a parameter's referent stays allocated")
	}
}

// sliceInv: type invariant of every slice value: 0 <= len <= cap
func (x *Exec) sliceInv(sl Term) {
	if x.slInv[sl.S] {
		return
	}
	x.slInv[sl.S] = true
	x.vc.assume(T(SBool, "(and (bvsle (_ bv0 64) %s) (bvsle %s %s) (bvsle %s (_ bv4611686018427387904 64)) (=> (= %s nil) (= %s (_ bv0 64))))", sliceLen(sl).S, sliceLen(sl).S, sliceCap(sl).S, sliceCap(sl).S, sliceRef(sl).S, sliceCap(sl).S), "slice type invariant 0 <= len <= cap, nil backing array only with cap 0")
}

func (x *Exec) allocRef(st *State, hint string) Term {
	r := x.vc.fresh(hint, SRef)
	as := arraySort(SRef, SBool)
	al := x.heapGet(st, allocHeap, as)
	x.vc.assume(and(not(eq(r, tNil)), not(sel(al, r))), "fresh allocation")
	x.freshRefs[r.S] = true
	x.heapSet(st, allocHeap, sto(al, r, tTrue))
	return r
}

func (x *Exec) mapStore(st *State, mt *types.Map, m, k, v Term) {
	mv, mp, mvS, mpS, _, _ := x.mapHeaps(mt)
	hv := x.heapGet(st, mv, mvS)
	hp := x.heapGet(st, mp, mpS)
	x.heapSet(st, mv, sto(hv, m, sto(sel(hv, m), k, v)))
	x.heapSet(st, mp, sto(hp, m, sto(sel(hp, m), k, tTrue)))
}

// guardedBase: if v is (derived from) a map/slice loaded from a guarded field of a struct pointer, the pointer and field
func guardedBase(v ssa.Value) (ssa.Value, string, string, bool) {
	for depth := 0; depth < 6; depth++ {
		switch u := v.(type) {
		case *ssa.UnOp:
			if u.Op != token.MUL {
				return nil, "", "", false
			}
			fa, ok := u.X.(*ssa.FieldAddr)
			if !ok {
				return nil, "", "", false
			}
			pt, ok := fa.X.Type().Underlying().(*types.Pointer)
			if !ok {
				return nil, "", "", false
			}
			named, ok := pt.Elem().(*types.Named)
			if !ok {
				return nil, "", "", false
			}
			return fa.X, named.Obj().Name(), pt.Elem().Underlying().(*types.Struct).Field(fa.Field).Name(), true
		case *ssa.Lookup:
			v = u.X
		default:
			return nil, "", "", false
		}
	}
	return nil, "", "", false
}

// guardedWrite: obligation that a write to a guarded field (or to a map held in one) happens under its mutex
func (x *Exec) guardedWrite(base ssa.Value, structName, field string, st *State, pc Term, pos token.Pos) {
	for _, g := range x.eng.cf.Guarded {
		if g.Struct != structName || !g.Fields[field] {
			continue
		}
		if x.eng.ghostDecl("locked") == nil || x.eng.ghostDecl("concurrent") == nil {
			ufail("guarded_by needs ghost vars `locked set[Ref]` and `concurrent bool`")
		}
		pt := base.Type().Underlying().(*types.Pointer)
		stt := pt.Elem().Underlying().(*types.Struct)
		mi := fieldIndex(stt, g.Mutex)
		hn, hs := x.fieldHeap(pt.Elem(), mi)
		mu := sel(x.heapGet(st, hn, hs), x.val(base))
		goal := or(sel(x.ghostGet(st, "locked"), mu), not(x.ghostGet(st, "concurrent")))
		if x.fc != nil && x.eng.cf.LockReaders[structName+"."+g.Mutex][x.fc.Pkg+"#"+x.fc.Name] {
			// a declared reader of this mutex never writes what it guards (the single-writer argument of `lockreaders` rests on it)
			goal = not(x.ghostGet(st, "concurrent"))
		}
		x.nsafety++
		x.vc.oblige(&Obligation{Name: fmt.Sprintf("%s.guarded-write(%s.%s)#%d", x.fnName(), structName, field, x.nsafety), Kind: "lock-discipline", Tags: g.Tags,
			Goal: goal, PC: pc, Src: "write to " + structName + "." + field + " only while " + g.Mutex + " is held (or before the goroutines start / after they are joined)", Pos: x.posStr(pos)})
	}
}

// guardedRead: in a function whose contract says `guardedreads`, a read of a guarded field (or of a map / slice held in one)
// is an obligation: the guarding mutex is held (or no other goroutine runs)
func (x *Exec) guardedRead(v ssa.Value, direct bool, st *State, pc Term, pos token.Pos) {
	if x.fc == nil || !x.fc.GuardedReadsOn {
		return
	}
	var base ssa.Value
	var structName, field string
	if direct {
		fa, ok := v.(*ssa.FieldAddr)
		if !ok {
			return
		}
		pt, ok := fa.X.Type().Underlying().(*types.Pointer)
		if !ok {
			return
		}
		named, ok := pt.Elem().(*types.Named)
		if !ok {
			return
		}
		base, structName, field = fa.X, named.Obj().Name(), pt.Elem().Underlying().(*types.Struct).Field(fa.Field).Name()
	} else {
		var ok bool
		base, structName, field, ok = guardedBase(v)
		if !ok {
			return
		}
	}
	for _, g := range x.eng.cf.Guarded {
		if g.Struct != structName || !g.Fields[field] {
			continue
		}
		pt := base.Type().Underlying().(*types.Pointer)
		stt := pt.Elem().Underlying().(*types.Struct)
		mi := fieldIndex(stt, g.Mutex)
		hn, hs := x.fieldHeap(pt.Elem(), mi)
		mu := sel(x.heapGet(st, hn, hs), x.val(base))
		goal := or(sel(x.ghostGet(st, "locked"), mu), not(x.ghostGet(st, "concurrent")))
		x.nsafety++
		x.vc.oblige(&Obligation{Name: fmt.Sprintf("%s.guarded-read(%s.%s)#%d", x.fnName(), structName, field, x.nsafety), Kind: "lock-discipline", Tags: x.fc.GuardedReads,
			Goal: goal, PC: pc, Src: "read of " + structName + "." + field + " only while " + g.Mutex + " is held", Pos: x.posStr(pos)})
	}
}

// siteAssertsAt: `siteassert mapupdate(T)` / `siteassert mapdelete(T)` clauses matching a map operation
func (x *Exec) siteAssertsAt(kind string, mt *types.Map, m, k Term, v *Term, st *State, pc Term, pos token.Pos) {
	if x.fc == nil {
		return
	}
	for _, sa := range x.fc.SiteAsserts {
		if sa.Kind != kind {
			continue
		}
		want := x.resolveType(sa.MapType, x.pkg)
		if canonType(want.Go.Underlying()) != canonType(mt) {
			continue
		}
		env := x.newEnv(st, x.entry)
		env.at = pos
		env.vars["k"] = SVal{T: k, Ty: goT(mt.Key())}
		env.vars["m"] = SVal{T: m, Ty: goT(mt)}
		if v != nil {
			env.vars["v"] = SVal{T: *v, Ty: goT(mt.Elem())}
		}
		goal := x.evalClause(env, sa.C)
		x.nsafety++
		x.vc.oblige(&Obligation{Name: fmt.Sprintf("%s#%d", sa.C.Name, x.nsafety), Kind: "site-assert", Tags: sa.C.Tags, Goal: goal, PC: pc, Src: sa.C.Src, Pos: x.posStr(pos), Observe: x.observations()})
	}
	for _, sg := range x.fc.SiteGhosts {
		if sg.Kind != kind {
			continue
		}
		want := x.resolveType(sg.MapType, x.pkg)
		if canonType(want.Go.Underlying()) != canonType(mt) {
			continue
		}
		gd := x.eng.ghostDecl(sg.Ghost)
		if gd == nil {
			ufail("siteghost assigns unknown ghost %s", sg.Ghost)
		}
		env := x.newEnv(st, x.entry)
		env.at = pos
		env.vars["k"] = SVal{T: k, Ty: goT(mt.Key())}
		env.vars["m"] = SVal{T: m, Ty: goT(mt)}
		if v != nil {
			env.vars["v"] = SVal{T: *v, Ty: goT(mt.Elem())}
		}
		ty := x.resolveType(gd.Type, x.pkg)
		nv := env.coerce(env.eval(sg.E), ty)
		st.ghosts[sg.Ghost] = x.vc.define("g_"+sg.Ghost, nv.T)
	}
}

func (x *Exec) mapDelete(st *State, mt *types.Map, m, k Term) {
	_, mp, _, mpS, _, _ := x.mapHeaps(mt)
	hp := x.heapGet(st, mp, mpS)
	x.heapSet(st, mp, sto(hp, m, sto(sel(hp, m), k, tFalse)))
}

func (x *Exec) execUnOp(i *ssa.UnOp, st *State, pc Term) {
	switch i.Op {
	case token.MUL:
		if g, ok := i.X.(*ssa.Global); ok {
			x.vals[i] = x.globalGet(st, g)
			return
		}
		a := x.resolveAddr(i.X)
		if !isAddrInstr(i.X) {
			x.nonNil(st, pc, a, i.Pos())
		}
		x.guardedRead(i.X, true, st, pc, i.Pos())
		v := x.loadAddr(st, a)
		x.vals[i] = x.vc.define(i.Name(), v)
		if fa, ok := i.X.(*ssa.FieldAddr); ok && a.Kind != aLocal && (v.Sort.isBV() || v.Sort == SBool || v.Sort == SF64 || v.Sort == SStr) {
			stt := fa.X.Type().Underlying().(*types.Pointer).Elem().Underlying().(*types.Struct)
			x.observe = append(x.observe, Observation{Label: fmt.Sprintf("load %s .%s", x.posStr(i.Pos()), stt.Field(fa.Field).Name()), T: x.vals[i]})
		}
		if x.rpOn && a.Kind != aLocal {
			x.rpObserve("load", x.valPath(i, 0), x.vals[i], i.Type(), pc, 0)
		}
	case token.NOT:
		x.vals[i] = not(x.val(i.X))
	case token.SUB:
		v := x.val(i.X)
		if v.Sort == SF64 {
			x.vals[i] = T(SF64, "(fp.neg %s)", v.S)
		} else {
			x.vals[i] = T(v.Sort, "(bvneg %s)", v.S)
		}
	case token.XOR:
		v := x.val(i.X)
		x.vals[i] = T(v.Sort, "(bvnot %s)", v.S)
	case token.ARROW:
		// receive: environment value
		if i.CommaOk {
			tt := i.Type().(*types.Tuple)
			v := x.vc.fresh("recv", x.w.sortOf(tt.At(0).Type()))
			ok := x.vc.fresh("recvok", SBool)
			x.tuples[i] = []Term{v, ok}
			x.recvEnvG(v, tt.At(0).Type(), and(pc, ok), st)
		} else {
			x.vals[i] = x.vc.fresh("recv", x.w.sortOf(i.Type()))
			x.recvEnvG(x.vals[i], i.Type(), pc, st)
		}
		x.dropped["channel receive at "+x.posStr(i.Pos())+": value is an unconstrained environment input; blocking not modelled"] = true
	default:
		ufail("unop %s", i.Op)
	}
}

func (x *Exec) execLookup(i *ssa.Lookup, st *State, pc Term) {
	switch xt := i.X.Type().Underlying().(type) {
	case *types.Map:
		m := x.val(i.X)
		k := x.val(i.Index)
		mv, mp, mvS, mpS, _, _ := x.mapHeaps(xt)
		pres := x.vc.define(i.Name()+"_ok", sel(sel(x.heapGet(st, mp, mpS), m), k))
		raw := sel(sel(x.heapGet(st, mv, mvS), m), k)
		v := x.vc.define(i.Name(), ite(pres, raw, x.w.zeroOf(xt.Elem())))
		x.observe = append(x.observe, Observation{Label: fmt.Sprintf("lookup %s key", x.posStr(i.Pos())), T: k},
			Observation{Label: fmt.Sprintf("lookup %s present", x.posStr(i.Pos())), T: pres})
		if x.rpOn {
			if lp := x.valPath(i, 0); lp != nil {
				x.rpEmit("present", lp, pres, "bool", pc)
				x.rpObserve("load", lp, v, xt.Elem(), pc, 0)
			}
		}
		if i.CommaOk {
			x.tuples[i] = []Term{v, pres}
		} else {
			x.vals[i] = v
		}
	case *types.Basic: // string index
		s := x.val(i.X)
		idx := x.idxTerm(i.Index)
		x.safety(st, pc, T(SBool, "(bvult %s (slen %s))", idx.S, s.S), "string-index", i.Pos())
		x.vals[i] = T(SBV(8), "(sbyte %s %s)", s.S, idx.S)
	default:
		ufail("lookup on %s", i.X.Type())
	}
}

func (x *Exec) execSlice(i *ssa.Slice, st *State, pc Term) {
	var lo, hi Term
	if i.Low != nil {
		lo = x.idxTerm(i.Low)
	} else {
		lo = bvInt(64, 0)
	}
	switch xt := i.X.Type().Underlying().(type) {
	case *types.Slice:
		sl := x.val(i.X)
		if i.High != nil {
			hi = x.idxTerm(i.High)
		} else {
			hi = sliceLen(sl)
		}
		x.safety(st, pc, T(SBool, "(and (bvule %s %s) (bvule %s %s))", lo.S, hi.S, hi.S, sliceCap(sl).S), "slice-bounds", i.Pos())
		x.vals[i] = x.vc.define(i.Name(), mkSlice(sliceRef(sl), T(SBV(64), "(bvadd %s %s)", sliceOff(sl).S, lo.S),
			T(SBV(64), "(bvsub %s %s)", hi.S, lo.S), T(SBV(64), "(bvsub %s %s)", sliceCap(sl).S, lo.S)))
	case *types.Pointer:
		arr := xt.Elem().Underlying().(*types.Array)
		n := bvInt(64, arr.Len())
		if i.High != nil {
			hi = x.idxTerm(i.High)
		} else {
			hi = n
		}
		// copy the array contents into a fresh backing store (sound while nobody writes through it: escape analysis)
		a := x.resolveAddr(i.X)
		v := x.loadAddr(st, a)
		r := x.allocRef(st, "arrslice")
		hn, hs := x.sliceHeap(arr.Elem())
		_, inner := hs.arrayParts()
		content := x.vc.fresh("arrcontent", inner) // indexes beyond the array length are never read
		for k := int64(0); k < arr.Len(); k++ {
			content = sto(content, bvInt(64, k), x.w.dtSelect(v, int(k)))
		}
		x.heapSet(st, hn, sto(x.heapGet(st, hn, hs), r, content))
		x.safety(st, pc, T(SBool, "(and (bvule %s %s) (bvule %s %s))", lo.S, hi.S, hi.S, n.S), "slice-bounds", i.Pos())
		x.vals[i] = mkSlice(r, lo, T(SBV(64), "(bvsub %s %s)", hi.S, lo.S), T(SBV(64), "(bvsub %s %s)", n.S, lo.S))
	case *types.Basic:
		s := x.val(i.X)
		if i.High != nil {
			hi = x.idxTerm(i.High)
		} else {
			hi = T(SBV(64), "(slen %s)", s.S)
		}
		x.safety(st, pc, T(SBool, "(and (bvule %s %s) (bvule %s (slen %s)))", lo.S, hi.S, hi.S, s.S), "string-slice-bounds", i.Pos())
		x.w.declareUF("substr", []Sort{SStr, SBV(64), SBV(64)}, SStr)
		r := T(SStr, "(substr %s %s %s)", s.S, lo.S, hi.S)
		x.vc.assume(eq(T(SBV(64), "(slen %s)", r.S), T(SBV(64), "(bvsub %s %s)", hi.S, lo.S)), "substr length")
		x.vals[i] = r
	default:
		ufail("slice of %s", i.X.Type())
	}
}

func (x *Exec) execNext(i *ssa.Next, st *State, pc Term) {
	if i.IsString {
		ufail("range over string")
	}
	rg := i.Iter.(*ssa.Range)
	mt := rg.X.Type().Underlying().(*types.Map)
	m := x.val(rg.X)
	mv, mp, mvS, mpS, ks, _ := x.mapHeaps(mt)
	vis, okv := st.iters[rg]
	if !okv {
		ufail("iterator without state")
	}
	ok := x.vc.fresh("next_ok", SBool)
	k := x.vc.fresh("next_k", ks)
	pres := sel(x.heapGet(st, mp, mpS), m)
	x.vc.assume(implies(pc, implies(ok, and(sel(pres, k), not(sel(vis, k))))), "map iteration yields a present, unvisited key")
	x.qn++
	qk := fmt.Sprintf("k!q%d", x.qn)
	x.vc.assume(implies(pc, implies(not(ok), T(SBool, "(forall ((%s %s)) (! (=> (select %s %s) (select %s %s)) :pattern ((select %s %s))))", qk, ks, pres.S, qk, vis.S, qk, pres.S, qk))),
		"map iteration ends only when every present key was visited")
	v := x.vc.define("next_v", sel(sel(x.heapGet(st, mv, mvS), m), k))
	st.iters[rg] = x.vc.define("visited", ite(ok, sto(vis, k, tTrue), vis))
	x.tuples[i] = []Term{ok, k, v}
}

// ---- sends and ghost updates

func (x *Exec) chanKey(v ssa.Value) string {
	// channel operand is a load of a struct field: key = Struct.field
	if u, ok := v.(*ssa.UnOp); ok && u.Op == token.MUL {
		if fa, ok := u.X.(*ssa.FieldAddr); ok {
			st := fa.X.Type().Underlying().(*types.Pointer).Elem()
			name := st.Underlying().(*types.Struct).Field(fa.Field).Name()
			if n, ok := st.(*types.Named); ok {
				return n.Obj().Name() + "." + name
			}
		}
	}
	return ""
}

func (x *Exec) execSend(i *ssa.Send, st *State, pc Term) {
	key := x.chanKey(i.Chan)
	v := x.val(i.X)
	vt := goT(i.X.Type())
	x.rpSend(i, v, st, pc)
	matched := false
	for _, c := range x.eng.cf.SendAsserts[key] {
		env := x.newEnv(st, x.entry)
		env.vars[c.Name] = SVal{T: v, Ty: vt}
		goal := x.evalClause(env, c)
		x.nsafety++
		x.vc.oblige(&Obligation{Name: fmt.Sprintf("%s.send#%d", x.fnName(), x.nsafety), Kind: "send-assert", Tags: c.Tags, Goal: goal, PC: pc, Src: c.Src, Pos: x.posStr(i.Pos()), Observe: x.observations()})
	}
	for _, os := range x.eng.cf.OnSends {
		if os.Chan != key {
			continue
		}
		matched = true
		env := x.newEnv(st, x.entry)
		env.vars[os.Var] = SVal{T: v, Ty: vt}
		// simultaneous assignment semantics are not needed: assignments are applied in order
		for _, as := range os.Assigns {
			gd := x.eng.ghostDecl(as.Name)
			if gd == nil {
				ufail("on-send assigns unknown ghost %s", as.Name)
			}
			ty := x.resolveType(gd.Type, x.pkg)
			nv := env.coerce(env.eval(as.E), ty)
			st.ghosts[as.Name] = x.vc.define("g_"+as.Name, nv.T)
		}
	}
	if !matched {
		x.dropped["send at "+x.posStr(i.Pos())+" on an unmodelled channel: no effect on modelled state; blocking not modelled"] = true
	}
}

func (x *Exec) fnName() string {
	if x.fc != nil {
		return x.fc.Name
	}
	return x.fn.Name()
}

func (x *Exec) newEnv(cur, old *State) *Env {
	e := &Env{x: x, cur: cur, loc: cur, old: old, vars: map[string]SVal{}, pkg: x.pkg, fn: x.fn}
	for k, v := range x.params {
		e.vars[k] = v
	}
	for k, v := range x.lets {
		e.vars[k] = v
	}
	return e
}

func (x *Exec) evalClause(env *Env, c *Clause) (t Term) {
	defer func() {
		if r := recover(); r != nil {
			if se, ok := r.(specError); ok {
				panic(specError{fmt.Sprintf("%s:%d: %s  [in: %s]", shortPath(c.File), c.Line, se.msg, c.Src)})
			}
			panic(r)
		}
	}()
	return env.evalBool(c.E)
}

// ---- driver

func (x *Exec) computeOrder() {
	fn := x.fn
	// back edges: p->h where h dominates p
	x.loops = map[*ssa.BasicBlock]*loopInfo{}
	isBack := func(p, h *ssa.BasicBlock) bool { return h.Dominates(p) }
	for _, b := range fn.Blocks {
		for _, s := range b.Succs {
			if isBack(b, s) {
				li := x.loops[s]
				if li == nil {
					li = &loopInfo{header: s, body: map[*ssa.BasicBlock]bool{s: true}}
					x.loops[s] = li
				}
				li.backs = append(li.backs, b)
				// natural loop
				var stack []*ssa.BasicBlock
				if !li.body[b] {
					li.body[b] = true
					stack = append(stack, b)
				}
				for len(stack) > 0 {
					n := stack[len(stack)-1]
					stack = stack[:len(stack)-1]
					for _, p := range n.Preds {
						if !li.body[p] {
							li.body[p] = true
							stack = append(stack, p)
						}
					}
				}
			}
		}
	}
	// number loops by source position of the header
	var hs []*ssa.BasicBlock
	for h := range x.loops {
		hs = append(hs, h)
	}
	headerPos := func(b *ssa.BasicBlock) token.Pos {
		best := token.Pos(0)
		for blk := range x.loops[b].body {
			for _, in := range blk.Instrs {
				if p := in.Pos(); p.IsValid() && (best == 0 || p < best) {
					best = p
				}
			}
		}
		return best
	}
	sort.Slice(hs, func(i, j int) bool {
		pi, pj := headerPos(hs[i]), headerPos(hs[j])
		if pi != pj {
			return pi < pj
		}
		// the outer loop contains the inner one
		return len(x.loops[hs[i]].body) > len(x.loops[hs[j]].body)
	})
	for n, h := range hs {
		li := x.loops[h]
		li.num = n + 1
		if x.fc != nil {
			li.ann = x.fc.Loops[n+1]
		}
		for _, in := range h.Instrs {
			if nx, ok := in.(*ssa.Next); ok {
				li.iter = nx.Iter
			}
			if ph, ok := in.(*ssa.Phi); ok && ph.Comment == "rangeindex" {
				li.idxPhi = ph
			}
			if u, ok := in.(*ssa.UnOp); ok {
				if a, ok := u.X.(*ssa.Alloc); ok && a.Comment == "rangeindex" {
					li.idxAlloc = a
				}
			}
			if bo, ok := in.(*ssa.BinOp); ok && bo.Op == token.LSS && li.idxAlloc != nil {
				li.idxLen = bo.Y
			}
		}
	}
	// ancestors (reachability over the full CFG, back edges included)
	x.vc.anc = map[int]map[int]bool{}
	for _, b := range fn.Blocks {
		seenA := map[int]bool{b.Index: true}
		stack := []*ssa.BasicBlock{b}
		for len(stack) > 0 {
			n := stack[len(stack)-1]
			stack = stack[:len(stack)-1]
			for _, p := range n.Preds {
				if !seenA[p.Index] {
					seenA[p.Index] = true
					stack = append(stack, p)
				}
			}
		}
		x.vc.anc[b.Index] = seenA
	}
	// reverse postorder ignoring back edges
	seen := map[*ssa.BasicBlock]bool{}
	var post []*ssa.BasicBlock
	var dfs func(b *ssa.BasicBlock)
	dfs = func(b *ssa.BasicBlock) {
		seen[b] = true
		for _, s := range b.Succs {
			if !seen[s] && !isBack(b, s) {
				dfs(s)
			}
		}
		post = append(post, b)
	}
	dfs(fn.Blocks[0])
	for i := len(post) - 1; i >= 0; i-- {
		x.order = append(x.order, post[i])
	}
}

type snapshot struct {
	ndecl, nassert, nobl, nrets, nobs int
	exitSt                            map[*ssa.BasicBlock]*State
	exitPC                            map[*ssa.BasicBlock]Term
}

func (x *Exec) snap() snapshot {
	s := snapshot{len(x.vc.decls), len(x.vc.asserts), len(x.vc.obls), len(x.rets), len(x.observe), map[*ssa.BasicBlock]*State{}, map[*ssa.BasicBlock]Term{}}
	for k, v := range x.exitSt {
		s.exitSt[k] = v
	}
	for k, v := range x.exitPC {
		s.exitPC[k] = v
	}
	return s
}

func (x *Exec) restore(s snapshot) {
	for _, d := range x.vc.decls[s.ndecl:] {
		delete(x.vc.declared, d.Name)
	}
	x.vc.decls = x.vc.decls[:s.ndecl]
	x.vc.asserts = x.vc.asserts[:s.nassert]
	x.vc.obls = x.vc.obls[:s.nobl]
	x.rets = x.rets[:s.nrets]
	x.observe = x.observe[:s.nobs]
	x.exitSt = s.exitSt
	x.exitPC = s.exitPC
	// heaps first touched during discovery must be re-declared on demand
	for name := range x.heapSorts {
		if !x.vc.declared[heapSym(name)+"@0"] {
			delete(x.heapSorts, name)
			delete(x.nilAxiom, name)
		}
	}
	var ho []string
	for _, n := range x.heapOrder {
		if _, ok := x.heapSorts[n]; ok {
			ho = append(ho, n)
		}
	}
	x.heapOrder = ho
	for k := range x.cardAx {
		delete(x.cardAx, k) // axioms are re-assumed on next use (harmless duplicates avoided by truncation)
	}
	for k := range x.slInv {
		delete(x.slInv, k)
	}
}

func (x *Exec) incoming(b *ssa.BasicBlock) []edgeState {
	var edges []edgeState
	for _, p := range b.Preds {
		if b.Dominates(p) && x.loops[b] != nil {
			continue // back edge
		}
		ps, ok := x.exitSt[p]
		if !ok {
			continue
		}
		c, ok := x.edgeCond[[2]*ssa.BasicBlock{p, b}]
		if !ok {
			continue
		}
		edges = append(edges, edgeState{cond: c, st: ps})
	}
	return edges
}

func (x *Exec) phiValue(ph *ssa.Phi, b *ssa.BasicBlock, onlyBack, onlyFwd bool, from *ssa.BasicBlock) Term {
	// value of phi for the given incoming edges
	type alt struct {
		c Term
		v Term
	}
	var alts []alt
	for k, p := range b.Preds {
		back := b.Dominates(p) && x.loops[b] != nil
		if (onlyBack && !back) || (onlyFwd && back) {
			continue
		}
		if from != nil && p != from {
			continue
		}
		c, ok := x.edgeCond[[2]*ssa.BasicBlock{p, b}]
		if !ok {
			continue
		}
		alts = append(alts, alt{c, x.operand(ph.Edges[k], x.exitSt[p])})
	}
	if len(alts) == 0 {
		ufail("phi %s has no incoming value", ph.Name())
	}
	r := alts[len(alts)-1].v
	for k := len(alts) - 2; k >= 0; k-- {
		r = ite(alts[k].c, alts[k].v, r)
	}
	return x.vc.define(ph.Name(), r)
}

func (x *Exec) execBlock(b *ssa.BasicBlock) {
	if len(x.inlineStack) == 0 {
		x.vc.curBlock = b.Index
	}
	var st *State
	var pc Term
	if f, ok := x.forced[b]; ok {
		st = f.st.clone()
		pc = f.cond
		delete(x.forced, b)
		// phis were bound by the caller
		x.runBody(b, st, pc)
		return
	}
	edges := x.incoming(b)
	if b == x.fn.Blocks[0] {
		st = x.entry.clone()
		if x.start != nil {
			st = x.start.clone()
		}
		pc = tTrue
	} else {
		if len(edges) == 0 {
			return // unreachable
		}
		st = x.mergeStates(edges)
		var cs []Term
		for _, e := range edges {
			cs = append(cs, e.cond)
		}
		pc = x.vc.define(fmt.Sprintf("pc%d", b.Index), or(cs...))
	}
	li := x.loops[b]
	// phis (forward edges)
	for _, in := range b.Instrs {
		if ph, ok := in.(*ssa.Phi); ok {
			x.vals[ph] = x.phiValue(ph, b, false, li != nil, nil)
		}
	}
	if li != nil {
		x.enterLoop(li, st, pc)
		st = x.exitSt[b] // enterLoop ran the header body
		return
	}
	x.runBody(b, st, pc)
}

// cutContexts: if the cut instruction is preceded in its block only by loads/address computations, the paths that
// meet at the block's entry (un-merged through pass-through blocks)
func (x *Exec) cutContexts(at ssa.Instruction) []edgeState {
	b := at.Block()
	if x.loops[b] != nil || b == x.fn.Blocks[0] {
		return nil
	}
	for _, in := range b.Instrs {
		if in == at {
			break
		}
		switch u := in.(type) {
		case *ssa.UnOp:
			if u.Op != token.MUL {
				return nil
			}
		case *ssa.FieldAddr, *ssa.IndexAddr, *ssa.DebugRef, *ssa.Alloc:
		default:
			return nil
		}
	}
	budget := 16
	var out []edgeState
	for _, p := range b.Preds {
		ps, ok := x.exitSt[p]
		if !ok {
			continue
		}
		c, ok := x.edgeCond[[2]*ssa.BasicBlock{p, b}]
		if !ok {
			continue
		}
		if _, isJump := p.Instrs[len(p.Instrs)-1].(*ssa.Jump); isJump && x.trivialBlock(p) {
			out = append(out, x.leafContexts(p, c, ps, &budget)...)
		} else {
			budget--
			out = append(out, edgeState{cond: c, st: ps, blk: p.Index, hasBlk: true})
		}
	}
	if budget < 0 {
		return nil
	}
	return out
}

// rangeIdxInv: -1 <= rangeindex < len, the invariant of a compiler-generated slice range loop (proved, not assumed)
func (x *Exec) rangeIdxInv(li *loopInfo, st *State) (Term, bool) {
	if li.idxAlloc == nil || li.idxLen == nil {
		return Term{}, false
	}
	ln, ok := x.vals[li.idxLen]
	if !ok {
		return Term{}, false
	}
	idx, ok := st.locals[li.idxAlloc]
	if !ok {
		return Term{}, false
	}
	return T(SBool, "(and (bvsle (_ bv18446744073709551615 64) %s) (bvslt %s %s) (bvsle (_ bv0 64) %s))", idx.S, idx.S, ln.S, ln.S), true
}

func (x *Exec) enterLoop(li *loopInfo, st *State, pc Term) {
	b := li.header
	x.vc.curBlock = b.Index
	li.entryPC = pc
	// 1. invariants on entry
	if li.ann != nil {
		for _, c := range li.ann.Invariants {
			env := x.newEnv(st, x.entry)
			env.loop = li
			goal := x.evalClause(env, c)
			x.vc.oblige(&Obligation{Name: c.Name + ".init", Kind: "invariant-init", Tags: c.Tags, Goal: goal, PC: pc, Src: c.Src, Pos: x.posStr(firstPos(b)), Observe: x.observations()})
		}
	}
	if x.fc != nil && x.fc.TerminatesOn {
		goal := tTrue
		if li.iter == nil && li.idxAlloc == nil && li.idxPhi == nil && !countingLoop(li) {
			goal = tFalse
		}
		x.vc.oblige(&Obligation{Name: fmt.Sprintf("%s.loop%d.terminates", x.fnName(), li.num), Kind: "termination", Tags: x.fc.Terminates, Goal: goal, PC: tTrue,
			Src: "the loop ranges over a slice, string or map, or counts a local up / down to a bound it does not change (structurally bounded); any other loop needs a bound that hv cannot check", Pos: x.posStr(firstPos(b))})
	}
	if g, ok := x.rangeIdxInv(li, st); ok {
		// len >= 0 is the slice type invariant; the index part is proved
		x.vc.oblige(&Obligation{Name: fmt.Sprintf("%s.loop%d.rangeindex.init", x.fnName(), li.num), Kind: "invariant-init", Goal: g, PC: pc, Src: "-1 <= rangeindex < len (automatic)", Pos: x.posStr(firstPos(b))})
	}
	// 2. discovery pass: which state components does the body modify?
	sn := x.snap()
	logStart := len(x.writeLog)
	savedVals := map[ssa.Value]Term{}
	for _, in := range b.Instrs {
		if ph, ok := in.(*ssa.Phi); ok {
			savedVals[ph] = x.vals[ph]
		}
	}
	x.forced[b] = &edgeState{cond: pc, st: st}
	for _, blk := range x.order {
		if li.body[blk] {
			x.execBlock(blk)
		}
	}
	written := x.diffStates(st, li)
	loopWrites := append([]heapWrite(nil), x.writeLog[logStart:]...)
	x.restore(sn)
	for k, v := range savedVals {
		x.vals[k] = v
	}
	// 3. havoc
	hst := st.clone()
	for _, w := range written.heaps {
		hst.heaps[w] = x.vc.fresh(heapSym(w)+"_loop", x.heapSorts0(w, st))
	}
	for _, g := range written.ghosts {
		hst.ghosts[g] = x.vc.fresh("G_"+g+"_loop", x.ghostGet(st, g).Sort)
	}
	for _, a := range written.locals {
		elem := a.Type().(*types.Pointer).Elem()
		hst.locals[a] = x.vc.fresh("l_"+a.Comment+"_loop", x.w.sortOf(elem))
	}
	for _, it := range written.iters {
		hst.iters[it] = x.vc.fresh("visited_loop", st.iters[it].Sort)
	}
	for _, in := range b.Instrs {
		if ph, ok := in.(*ssa.Phi); ok {
			x.vals[ph] = x.vc.fresh(ph.Name()+"_loop", x.w.sortOf(ph.Type()))
		}
	}
	// second discovery pass from the havocked state (an arbitrary iteration): which objects does the body write?
	// (loop-carried variables are unknown here, so a write through them is not mistaken for a write to a fresh object)
	{
		sn2 := x.snap()
		logStart2 := len(x.writeLog)
		saved2 := map[ssa.Value]Term{}
		for _, in := range b.Instrs {
			if ph, ok := in.(*ssa.Phi); ok {
				saved2[ph] = x.vals[ph]
			}
		}
		x.forced[b] = &edgeState{cond: pc, st: hst}
		for _, blk := range x.order {
			if li.body[blk] {
				x.execBlock(blk)
			}
		}
		loopWrites = append([]heapWrite(nil), x.writeLog[logStart2:]...)
		x.restore(sn2)
		for k, v := range saved2 {
			x.vals[k] = v
		}
	}
	// automatic loop frame: a heap that the body writes only at objects allocated by this function keeps the contents
	// of every object that was allocated when the function was entered
	alloc0 := x.heapInit(allocHeap, arraySort(SRef, SBool))
	for _, w := range written.heaps {
		if w == allocHeap || strings.HasPrefix(w, "G:") {
			continue
		}
		onlyFresh := true
		seen := false
		for _, lw := range loopWrites {
			if lw.heap != w {
				continue
			}
			seen = true
			if !x.freshRefs[lw.ref] {
				onlyFresh = false
			}
		}
		if !seen || !onlyFresh {
			continue
		}
		before := x.heapGet(st, w, x.heapSorts0(w, st))
		x.qn++
		r := fmt.Sprintf("r!q%d", x.qn)
		x.vc.assume(T(SBool, "(forall ((%s Ref)) (! (=> (select %s %s) (= (select %s %s) (select %s %s))) :pattern ((select %s %s))))", r, alloc0.S, r, hst.heaps[w].S, r, before.S, r, hst.heaps[w].S, r),
			"loop frame: heap "+w+" is written only at objects allocated by this function")
	}
	// allocation only grows
	if contains(written.heaps, allocHeap) {
		x.qn++
		r := fmt.Sprintf("r!q%d", x.qn)
		x.vc.assume(T(SBool, "(forall ((%s Ref)) (! (=> (select %s %s) (select %s %s)) :pattern ((select %s %s))))", r,
			x.heapGet(st, allocHeap, arraySort(SRef, SBool)).S, r, hst.heaps[allocHeap].S, r, hst.heaps[allocHeap].S, r), "allocation is monotone across loop iterations")
		x.paramsStayAllocated(hst.heaps[allocHeap])
	}
	if g, ok := x.rangeIdxInv(li, hst); ok {
		x.vc.assume(implies(pc, g), "range index invariant")
	}
	// 4. assume invariants
	if li.ann != nil {
		for _, c := range li.ann.Invariants {
			env := x.newEnv(hst, x.entry)
			env.loop = li
			x.vc.assumeTagged(implies(pc, x.evalClause(env, c)), "loop invariant "+c.Name, c.Excl)
		}
	}
	x.runBody(b, hst, pc)
}

func (x *Exec) heapSorts0(name string, st *State) Sort {
	if s, ok := x.heapSorts[name]; ok {
		return s
	}
	if s, ok := x.allSorts[name]; ok {
		return s
	}
	if t, ok := st.heaps[name]; ok {
		return t.Sort
	}
	panic("unknown heap " + name)
}

func contains(ss []string, s string) bool {
	for _, v := range ss {
		if v == s {
			return true
		}
	}
	return false
}

func firstPos(b *ssa.BasicBlock) token.Pos {
	for _, in := range b.Instrs {
		if in.Pos().IsValid() {
			return in.Pos()
		}
	}
	return token.NoPos
}

type writeSet struct {
	heaps  []string
	ghosts []string
	locals []*ssa.Alloc
	iters  []ssa.Value
}

func (x *Exec) diffStates(entry *State, li *loopInfo) writeSet {
	var ws writeSet
	hs := map[string]bool{}
	gs := map[string]bool{}
	ls := map[*ssa.Alloc]bool{}
	is := map[ssa.Value]bool{}
	for blk := range li.body {
		ex, ok := x.exitSt[blk]
		if !ok {
			continue
		}
		for k, v := range ex.heaps {
			if e, ok := entry.heaps[k]; !ok || e.S != v.S {
				if !ok && v.S == heapSym(k)+"@0" {
					continue
				}
				hs[k] = true
			}
		}
		for k, v := range ex.ghosts {
			if e, ok := entry.ghosts[k]; !ok || e.S != v.S {
				gs[k] = true
			}
		}
		for k, v := range ex.locals {
			if e, ok := entry.locals[k]; !ok || e.S != v.S {
				ls[k] = true
			}
		}
		for k, v := range ex.iters {
			if e, ok := entry.iters[k]; !ok || e.S != v.S {
				is[k] = true
			}
		}
	}
	for k := range hs {
		ws.heaps = append(ws.heaps, k)
	}
	sort.Strings(ws.heaps)
	for k := range gs {
		ws.ghosts = append(ws.ghosts, k)
	}
	sort.Strings(ws.ghosts)
	for k := range ls {
		ws.locals = append(ws.locals, k)
	}
	sort.Slice(ws.locals, func(i, j int) bool { return ws.locals[i].Name() < ws.locals[j].Name() })
	for k := range is {
		ws.iters = append(ws.iters, k)
	}
	return ws
}

func (x *Exec) runBody(b *ssa.BasicBlock, st *State, pc Term) {
	x.vc.curBlock = b.Index
	for _, in := range b.Instrs {
		if _, ok := in.(*ssa.Phi); ok {
			continue
		}
		x.execInstr(in, st, pc)
	}
	x.exitSt[b] = st
	x.exitPC[b] = pc
	n := len(b.Instrs)
	if n == 0 {
		return
	}
	switch t := b.Instrs[n-1].(type) {
	case *ssa.If:
		c := x.val(t.Cond)
		x.edgeCond[[2]*ssa.BasicBlock{b, b.Succs[0]}] = x.vc.define("ec", and(pc, c))
		if b.Succs[1] != b.Succs[0] {
			x.edgeCond[[2]*ssa.BasicBlock{b, b.Succs[1]}] = x.vc.define("ec", and(pc, not(c)))
		} else {
			x.edgeCond[[2]*ssa.BasicBlock{b, b.Succs[0]}] = pc
		}
	case *ssa.Jump:
		x.edgeCond[[2]*ssa.BasicBlock{b, b.Succs[0]}] = pc
	case *ssa.Return:
		var rs []Term
		for _, r := range t.Results {
			rs = append(rs, x.operand(r, st))
		}
		x.rets = append(x.rets, retPoint{b, pc, st.clone(), rs})
	case *ssa.Panic:
	default:
		if len(b.Succs) == 1 {
			x.edgeCond[[2]*ssa.BasicBlock{b, b.Succs[0]}] = pc
		}
	}
	// back edges: invariant preservation
	for _, s := range b.Succs {
		li := x.loops[s]
		if li == nil || !s.Dominates(b) {
			continue
		}
		ec := x.edgeCond[[2]*ssa.BasicBlock{b, s}]
		if g, ok := x.rangeIdxInv(li, st); ok {
			x.vc.oblige(&Obligation{Name: fmt.Sprintf("%s.loop%d.rangeindex.step", x.fnName(), li.num), Kind: "invariant-step", Goal: g, PC: ec, Src: "-1 <= rangeindex < len (automatic)", Pos: x.posStr(firstPos(s))})
		}
		if li.ann == nil {
			continue
		}
		// bind header phis to the values flowing along this back edge
		saved := map[*ssa.Phi]Term{}
		for _, in := range s.Instrs {
			if ph, ok := in.(*ssa.Phi); ok {
				saved[ph] = x.vals[ph]
			}
		}
		for ph := range saved {
			x.vals[ph] = x.phiValue(ph, s, false, false, b)
		}
		for _, c := range li.ann.Invariants {
			env := x.newEnv(st, x.entry)
			env.loop = li
			goal := x.evalClause(env, c)
			x.vc.oblige(&Obligation{Name: c.Name + ".step", Kind: "invariant-step", Tags: c.Tags, Goal: goal, PC: ec, Src: c.Src, Pos: x.posStr(firstPos(s)), Observe: x.observations()})
		}
		for ph, v := range saved {
			x.vals[ph] = v
		}
	}
}
