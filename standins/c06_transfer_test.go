package device

// Bounded stand-in for C06 (labelled "bounded" in the evidence, never counted as proved):
// "within one step of the exact value" and "monotonic in the raw position" are relational / real-valued statements over a
// six-operation IEEE pipeline, which no solver here decides (DESIGN 2.5). This test drives the REAL handleABSEvent over
// every raw value of the axis ranges below x deadzones x flip x centre-deadzone x transfer case, and compares with the
// exact rational value computed with math/big. Ranges, end stops, rest values and signs are proved, not tested.

import (
	"fmt"
	"math/big"
	"os"
	"testing"

	"github.com/gethiox/HIDI/internal/pkg/input"
	"github.com/gethiox/HIDI/internal/pkg/midi"
	"github.com/gethiox/HIDI/internal/pkg/midi/device/config"
	"github.com/holoplot/go-evdev"
)

type hvAxis struct{ min, max int32 }

func hvRat(a, b int64) *big.Rat { return big.NewRat(a, b) }

// exact shaped, flipped value in [-1,1] (or [0,1] for an unsigned axis without centre deadzone)
func hvShape(v int32, ax hvAxis, dz *big.Rat, flip, dac bool) (x *big.Rat, signed bool) {
	signed = ax.min < 0
	if v < 0 {
		x = hvRat(int64(v), int64(-ax.min))
	} else {
		x = hvRat(int64(v), int64(ax.max))
	}
	if dac && !signed {
		x = new(big.Rat).Sub(new(big.Rat).Mul(x, hvRat(2, 1)), hvRat(1, 1))
		signed = true
	}
	one := hvRat(1, 1)
	abs := new(big.Rat).Abs(x)
	if abs.Cmp(dz) < 0 || (x.Sign() < 0 && new(big.Rat).Neg(x).Cmp(dz) == 0 && false) {
		x = hvRat(0, 1)
	} else {
		s := new(big.Rat).Quo(new(big.Rat).Sub(abs, dz), new(big.Rat).Sub(one, dz))
		if x.Sign() < 0 {
			s.Neg(s)
		}
		x = s
	}
	if flip {
		if signed {
			x = new(big.Rat).Neg(x)
		} else {
			x = new(big.Rat).Sub(one, x)
		}
	}
	return x, signed
}

func hvFirst(d *Device, out chan midi.Event, v int32) []midi.Event {
	d.handleABSEvent(&input.InputEvent{Event: evdev.InputEvent{Type: evdev.EV_ABS, Code: 0, Value: v}})
	var evs []midi.Event
	for {
		select {
		case e := <-out:
			evs = append(evs, e)
		default:
			return evs
		}
	}
}

func TestZZHvBoundedC06(t *testing.T) {
	axes := []hvAxis{{0, 255}, {-128, 127}, {-127, 127}, {-1, 1}, {0, 1023}}
	if os.Getenv("VERIF_TIER") == "thorough" {
		axes = append(axes, hvAxis{-32768, 32767}, hvAxis{0, 4095}, hvAxis{0, 65535})
	}
	dzs := []float64{0, 0.05, 0.1, 0.25, 0.5, 0.9}
	evals, viol, known := 0, 0, 0
	report := func(format string, a ...interface{}) {
		viol++
		if viol <= 8 {
			fmt.Printf("HV-VIOLATION "+format+"\n", a...)
		}
	}
	type tcase struct {
		name string
		an   config.Analog
	}
	cases := []tcase{
		{"cc", config.Analog{MappingType: config.AnalogCC, CC: 10}},
		{"cc-bidi", config.Analog{MappingType: config.AnalogCC, CC: 10, CCNeg: 11, Bidirectional: true}},
		{"pitch", config.Analog{MappingType: config.AnalogPitchBend}},
	}
	for _, ax := range axes {
		for _, dzf := range dzs {
			dz := new(big.Rat).SetFloat64(dzf)
			for _, flip := range []bool{false, true} {
				for _, dac := range []bool{false, true} {
					if dac && ax.min < 0 {
						continue
					}
					for _, tc := range cases {
						an := tc.an
						an.FlipAxis, an.DeadzoneAtCenter = flip, dac
						prev := int64(-1 << 40)
						for v := ax.min; ; v++ {
							evals++
							out := make(chan midi.Event, 8)
							cfg := config.Config{KeyMappings: []config.KeyMapping{{Name: "m", Midi: map[string]map[evdev.EvCode]config.Key{},
								Analog:    map[string]map[evdev.EvCode]config.Analog{"": {0: an}},
								Deadzones: map[string]map[evdev.EvCode]float64{"": {0: dzf}}, DefaultDeadzone: map[string]float64{"": 0}}},
								CollisionMode: config.CollisionOff, Defaults: config.Defaults{Channel: 1, Velocity: 64}}
							idev := input.Device{AbsInfos: map[string]map[evdev.EvCode]evdev.AbsInfo{"": {0: {Minimum: ax.min, Maximum: ax.max}}}}
							d := NewDevice(idev, config.DeviceConfig{Config: cfg}, out, nil, true, 0, make(chan os.Signal, 1))
							// a fresh device has lastAnalogValue 0: a shaped value of exactly 0 is not re-sent; prime with the far end first
							prime := ax.max
							if v == ax.max {
								prime = ax.min
							}
							hvFirst(&d, out, prime)
							evs := hvFirst(&d, out, v)
							x, signed := hvShape(v, ax, dz, flip, dac)
							// expected exact real value on the transmitted scale and the transmitted integer (signed scale for bidi)
							var want *big.Rat
							var got int64 = -1 << 40
							switch tc.name {
							case "cc":
								if signed {
									want = new(big.Rat).Mul(hvRat(127, 2), new(big.Rat).Add(x, hvRat(1, 1)))
								} else {
									want = new(big.Rat).Mul(hvRat(127, 1), x)
								}
								if len(evs) > 0 {
									got = int64(evs[0][2])
								}
							case "cc-bidi":
								// signed scale: +value on CC, -value on CCNeg
								c := x
								if !signed {
									c = new(big.Rat).Sub(new(big.Rat).Mul(x, hvRat(2, 1)), hvRat(1, 1))
								}
								want = new(big.Rat).Mul(hvRat(127, 1), c)
								if len(evs) > 0 {
									got = int64(evs[0][2])
									if evs[0][1] == 11 {
										got = -got
									}
								}
							case "pitch":
								c := x
								if !signed {
									c = new(big.Rat).Sub(new(big.Rat).Mul(x, hvRat(2, 1)), hvRat(1, 1))
								}
								want = new(big.Rat).Mul(hvRat(16383, 2), new(big.Rat).Add(c, hvRat(1, 1)))
								if len(evs) > 0 {
									got = int64(evs[0][2])<<7 | int64(evs[0][1])
								}
							}
							if len(evs) == 0 {
								// nothing transmitted: the shaped value equals the primed one (both exactly 0); skip
								if v == ax.max {
									break
								}
								continue
							}
							diff := new(big.Rat).Sub(big.NewRat(got, 1), want)
							if diff.Abs(diff).Cmp(hvRat(1, 1)) > 0 && diff.Cmp(new(big.Rat).Add(hvRat(1, 1), hvRat(1, 1000000000))) <= 0 {
								// recorded finding C06-trunc-eps (see /verif/known_findings.json): the code truncates 127*x; where the exact
								// value is an integer k the float product can be k-eps, which truncates to k-1: one step plus < 1e-9 off
								known++
								if known <= 2 {
									w, _ := want.Float64()
									fmt.Printf("HV-KNOWN key=C06-trunc-eps axis=[%d,%d] dz=%v flip=%v dac=%v case=%s raw=%d: transmitted %d, exact value %.12f\n", ax.min, ax.max, dzf, flip, dac, tc.name, v, got, w)
								}
							} else if diff.Cmp(hvRat(1, 1)) > 0 {
								w, _ := want.Float64()
								report("axis=[%d,%d] dz=%v flip=%v dac=%v case=%s raw=%d: transmitted %d, exact value %.4f (more than one step off)", ax.min, ax.max, dzf, flip, dac, tc.name, v, got, w)
							}
							// monotonic in the raw position (direction reversed by flip)
							if prev != -1<<40 {
								if (!flip && got < prev) || (flip && got > prev) {
									report("axis=[%d,%d] dz=%v flip=%v dac=%v case=%s raw=%d: transmitted %d after %d (not monotonic)", ax.min, ax.max, dzf, flip, dac, tc.name, v, got, prev)
								}
							}
							prev = got
							if v == ax.max {
								break
							}
						}
					}
				}
			}
		}
	}
	if known > 0 {
		fmt.Printf("HV-KNOWN-COUNT key=C06-trunc-eps count=%d\n", known)
	}
	fmt.Printf("HV-BOUNDED evaluations=%d violations=%d bound=%q\n", evals, viol, fmt.Sprintf("every raw value of %d axis ranges x 6 deadzones x flip x centre-deadzone x {cc, bidirectional cc, pitch bend}", len(axes)))
	if viol > 0 {
		t.Fail()
	}
}
