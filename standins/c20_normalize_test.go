package input

// Bounded stand-in for C20 (labelled "bounded" in the evidence, never counted as proved):
// drives the REAL Normalize / DetermineDeviceType over every handler list up to the stated bound (handlers that cannot be
// opened, as the property's observe_at says) and checks: every handler is in exactly one device, two handlers share a
// device exactly when they share the physical location, the device type is the stated function of the set of handler
// types, and all of that is the same for the reversed and for the rotated list (order independence).

import (
	"fmt"
	"os"
	"sort"
	"strings"
	"testing"

	"github.com/holoplot/go-evdev"
)

type hvKind struct {
	name string
	caps []evdev.EvType
}

var hvKinds = []hvKind{
	{"stdkbd", []evdev.EvType{evdev.EV_SYN, evdev.EV_KEY, evdev.EV_MSC, evdev.EV_LED, evdev.EV_REP}},
	{"nkro", []evdev.EvType{evdev.EV_SYN, evdev.EV_KEY, evdev.EV_MSC, evdev.EV_REP}},
	{"mouse", []evdev.EvType{evdev.EV_SYN, evdev.EV_KEY, evdev.EV_REL, evdev.EV_MSC}},
	{"joy", []evdev.EvType{evdev.EV_SYN, evdev.EV_KEY, evdev.EV_ABS}},
	{"unknown", []evdev.EvType{evdev.EV_SYN}},
}

func hvSpecType(kinds map[string]int, n int) DeviceType {
	switch {
	case kinds["joy"] > 0:
		return JoystickDevice
	case kinds["stdkbd"] > 0:
		return KeyboardDevice
	case n == 1 && kinds["mouse"] == 1:
		return MouseDevice
	}
	return UnknownDevice
}

// canonical description of a Normalize result: sorted "phys|type|sorted handler names"
func hvDescribe(devs []Device) []string {
	var out []string
	for _, d := range devs {
		var hs []string
		for _, h := range d.Handlers {
			hs = append(hs, h.DeviceInfo.Uniq)
		}
		sort.Strings(hs)
		out = append(out, fmt.Sprintf("%s|%d|%s", d.Phys, d.DeviceType, strings.Join(hs, ",")))
	}
	sort.Strings(out)
	return out
}

func TestZZHvBoundedC20(t *testing.T) {
	physes := []string{"usb-1/input0", "usb-2/input0", "bt-3"}
	evals, viol := 0, 0
	report := func(format string, a ...interface{}) {
		viol++
		if viol <= 5 {
			fmt.Printf("HV-VIOLATION "+format+"\n", a...)
		}
	}
	evMode := 0
	check := func(seq []int) {
		evals++
		var in []DeviceInfo
		for i, c := range seq {
			k := hvKinds[c%len(hvKinds)]
			p := physes[c/len(hvKinds)]
			// Uniq carries a unique tag so that handlers can be told apart in the output; Name empty.
			// evMode 0: no event node; evMode 1: event-node names that run AGAINST the list order (so that the order of event names
			// disagrees with the order of locations for many lists; the nodes do not exist, such handlers must still be grouped)
			di := DeviceInfo{Name: "dev", Phys: p, Uniq: fmt.Sprintf("h%d:%s", i, k.name), CapableTypes: k.caps}
			if evMode == 1 {
				di.eventName = fmt.Sprintf("event9%04d", 5000-i)
			}
			in = append(in, di)
		}
		devs := Normalize(in)
		// expected partition
		groups := map[string][]int{}
		for i := range in {
			groups[in[i].Phys] = append(groups[in[i].Phys], i)
		}
		seen := map[string]int{}
		if len(devs) != len(groups) {
			report("input=%v: %d devices for %d locations", seq, len(devs), len(groups))
		}
		for _, d := range devs {
			kinds := map[string]int{}
			for _, h := range d.Handlers {
				seen[h.DeviceInfo.Uniq]++
				if h.DeviceInfo.Phys != d.Phys {
					report("input=%v: handler %s (phys %s) in device %s", seq, h.DeviceInfo.Uniq, h.DeviceInfo.Phys, d.Phys)
				}
				kinds[strings.SplitN(h.DeviceInfo.Uniq, ":", 2)[1]]++
			}
			if len(d.Handlers) != len(groups[d.Phys]) {
				report("input=%v: device %s has %d handlers, location has %d", seq, d.Phys, len(d.Handlers), len(groups[d.Phys]))
			}
			if want := hvSpecType(kinds, len(d.Handlers)); d.DeviceType != want {
				report("input=%v: device %s typed %v, want %v", seq, d.Phys, d.DeviceType, want)
			}
		}
		for i := range in {
			if seen[in[i].Uniq] != 1 {
				report("input=%v: handler %s appears in %d devices", seq, in[i].Uniq, seen[in[i].Uniq])
			}
		}
		// order independence: reversed and rotated inputs give the same devices
		base := hvDescribe(devs)
		rev := make([]DeviceInfo, len(in))
		for i := range in {
			rev[len(in)-1-i] = in[i]
		}
		rot := append(append([]DeviceInfo{}, in[len(in)/2:]...), in[:len(in)/2]...)
		for _, other := range [][]DeviceInfo{rev, rot} {
			if got := hvDescribe(Normalize(other)); strings.Join(got, ";") != strings.Join(base, ";") {
				report("input=%v: result depends on discovery order: %v vs %v", seq, base, got)
			}
		}
	}
	maxLen, nComb := 4, len(hvKinds)*len(physes)
	if os.Getenv("VERIF_TIER") == "thorough" {
		maxLen = 5
	}
	var rec func(prefix []int, depth int)
	rec = func(prefix []int, depth int) {
		if len(prefix) > 0 {
			check(prefix)
		}
		if depth == 0 {
			return
		}
		for c := 0; c < nComb; c++ {
			rec(append(prefix, c), depth-1)
		}
	}
	rec(nil, maxLen)
	evMode = 1
	rec(nil, maxLen-1)
	evMode = 0
	// longer lists over two locations and three kinds (interleavings A,B,A,...)
	small := []int{0, 3, 1, 0 + len(hvKinds), 3 + len(hvKinds), 1 + len(hvKinds)}
	var rec2 func(prefix []int, depth int)
	rec2 = func(prefix []int, depth int) {
		if len(prefix) > maxLen {
			check(prefix)
		}
		if depth == 0 {
			return
		}
		for _, c := range small {
			rec2(append(prefix, c), depth-1)
		}
	}
	rec2(nil, 6)
	fmt.Printf("HV-BOUNDED evaluations=%d violations=%d bound=%q\n", evals, viol, fmt.Sprintf("all handler lists of length<=%d over 3 locations x 5 handler kinds (and of length<=%d again with event-node names running against the list order), and of length %d..6 over 2 locations x 3 kinds; each also reversed and rotated", maxLen, maxLen-1, maxLen+1))
	if viol > 0 {
		t.Fail()
	}
}
