package device

// Stand-in attached to C01 for one recorded finding that the contracts cannot see: the contracts identify "a key-emulating
// axis is held" with "its identifier is in analogNoteTracker". When the mapping is switched while such an axis is deflected
// and the new mapping does not key-emulate that axis, returning the axis to centre releases nothing: the tracker (and the
// receiver) keep the note although physically nothing is held. This test drives the REAL code through that family of
// histories; hits are reported under the key C01-axis-mapping-switch (see /verif/known_findings.json).

import (
	"fmt"
	"os"
	"testing"

	"github.com/gethiox/HIDI/internal/pkg/input"
	"github.com/gethiox/HIDI/internal/pkg/midi"
	"github.com/gethiox/HIDI/internal/pkg/midi/device/config"
	"github.com/holoplot/go-evdev"
)

func TestZZHvBoundedC01(t *testing.T) {
	evals, viol, known := 0, 0, 0
	for _, collision := range []config.CollisionMode{config.CollisionOff, config.CollisionNoRepeat, config.CollisionInterrupt, config.CollisionRetrigger} {
		for _, dir := range []int32{1, -1} {
			for _, other := range []string{"absent", "cc"} {
				for _, sw := range []string{"mapping_up", "stay"} {
					evals++
					out := make(chan midi.Event, 4096)
					mA := config.KeyMapping{Name: "A", Midi: map[string]map[evdev.EvCode]config.Key{"": {30: {Note: 60}}},
						Analog:    map[string]map[evdev.EvCode]config.Analog{"": {0: {MappingType: config.AnalogKeySim, Note: 64, NoteNeg: 65, Bidirectional: true}}},
						Deadzones: map[string]map[evdev.EvCode]float64{}, DefaultDeadzone: map[string]float64{"": 0}}
					mB := config.KeyMapping{Name: "B", Midi: map[string]map[evdev.EvCode]config.Key{"": {30: {Note: 72}}},
						Analog: map[string]map[evdev.EvCode]config.Analog{}, Deadzones: map[string]map[evdev.EvCode]float64{}, DefaultDeadzone: map[string]float64{"": 0}}
					if other == "cc" {
						mB.Analog = map[string]map[evdev.EvCode]config.Analog{"": {0: {MappingType: config.AnalogCC, CC: 20}}}
					}
					cfg := config.Config{KeyMappings: []config.KeyMapping{mA, mB}, ActionMapping: map[evdev.EvCode]config.Action{59: config.MappingUp},
						CollisionMode: collision, Defaults: config.Defaults{Channel: 1, Velocity: 64}}
					idev := input.Device{AbsInfos: map[string]map[evdev.EvCode]evdev.AbsInfo{"": {0: {Minimum: -128, Maximum: 127}}}}
					d := NewDevice(idev, config.DeviceConfig{Config: cfg}, out, make(chan midi.Event), true, 0, make(chan os.Signal, 1))
					abs := func(v int32) {
						d.processEvent(&input.InputEvent{Event: evdev.InputEvent{Type: evdev.EV_ABS, Code: 0, Value: v}})
					}
					key := func(c evdev.EvCode, v int32) {
						d.processEvent(&input.InputEvent{Event: evdev.InputEvent{Type: evdev.EV_KEY, Code: c, Value: v}})
					}
					abs(dir * 120) // deflect
					if sw == "mapping_up" {
						key(59, 1)
						key(59, 0)
					}
					abs(0) // back to centre: nothing is held any more
					sounding := map[[2]byte]bool{}
					for {
						select {
						case e := <-out:
							st, ch := e[0]&0xF0, e[0]&0x0F
							switch {
							case st == 0x90 && e[2] > 0:
								sounding[[2]byte{ch, e[1]}] = true
							case st == 0x80 || st == 0x90:
								delete(sounding, [2]byte{ch, e[1]})
							}
							continue
						default:
						}
						break
					}
					if len(sounding) > 0 {
						if sw == "mapping_up" {
							known++
							if known <= 2 {
								fmt.Printf("HV-KNOWN key=C01-axis-mapping-switch mode=%s direction=%d new-mapping-axis=%s: axis deflected, mapping_up, axis back at centre: still sounding %v\n", collision, dir, other, sounding)
							}
						} else {
							viol++
							fmt.Printf("HV-VIOLATION mode=%s direction=%d: axis deflected and returned to centre within one mapping: still sounding %v\n", collision, dir, sounding)
						}
					}
				}
			}
		}
	}
	if known > 0 {
		fmt.Printf("HV-KNOWN-COUNT key=C01-axis-mapping-switch count=%d\n", known)
	}
	fmt.Printf("HV-BOUNDED evaluations=%d violations=%d bound=%q\n", evals, viol, "4 collision modes x 2 directions x {axis absent, axis is a cc axis in the new mapping} x {mapping switched while deflected, not switched}")
	if viol > 0 {
		t.Fail()
	}
}
