package config

// Bounded stand-in for C09 (labelled "bounded" in the evidence, never counted as proved).
// The proof of C09 treats the TOML decoder as an external function; this test drives the REAL ParseData over
// near-valid configurations: every `key = value` line of every factory configuration, with the value replaced by each of
// the value spellings below (valid TOML of another type: dates, times, numbers, strings, arrays, tables, ...), plus the
// line deleted and the line duplicated. ParseData has to return (a configuration or an error) within the time limit and
// must not panic. Bound: (lines of the shipped factory files) x (spellings); thorough also corrupts two lines at once.

import (
	"fmt"
	"os"
	"path/filepath"
	"strings"
	"testing"
	"time"
)

var hvC09Spellings = []string{
	"1979-05-27", "07:32:00", "1979-05-27T07:32:00", "1979-05-27T07:32:00Z", "1979-05-27 07:32:00.5-07:00",
	"0", "-1", "1", "128", "65536", "9223372036854775807", "-9223372036854775808", "0x7f", "0o17", "0b1", "1_000",
	"0.0", "-0.0", "0.5", "1.0", "1e308", "inf", "+inf", "-inf", "nan", "true", "false",
	`""`, `"x"`, `'c3'`, `"""a"""`, `"c#8"`, `"128,99"`, `"1,2,3"`,
	"[]", "[1]", `["a"]`, "[[1]]", `[1, "a"]`, "{}", "{ a = 1 }", `{ "" = "" }`,
}

func hvC09Run(src string) (res string) {
	done := make(chan string, 1)
	go func() {
		defer func() {
			if r := recover(); r != nil {
				done <- fmt.Sprintf("panic: %v", r)
			}
		}()
		_, err := ParseData([]byte(src))
		if err != nil {
			done <- "error"
		} else {
			done <- "config"
		}
	}()
	select {
	case r := <-done:
		return r
	case <-time.After(5 * time.Second):
		return "hang (no result after 5 s)"
	}
}

func TestZZHvBoundedC09(t *testing.T) {
	root := filepath.Join("..", "..", "..", "..", "..", "cmd", "hidi", "hidi-config", "factory")
	var files []string
	filepath.Walk(root, func(p string, info os.FileInfo, err error) error {
		if err == nil && !info.IsDir() && strings.HasSuffix(p, ".toml") {
			files = append(files, p)
		}
		return nil
	})
	if len(files) == 0 {
		fmt.Println("HV-VIOLATION no factory configuration found (stand-in cannot run)")
		t.Fail()
		return
	}
	evals, viol := 0, 0
	report := func(what, file string, line int, src string, res string) {
		viol++
		if viol <= 5 {
			fmt.Printf("HV-VIOLATION ParseData %s: %s (file %s, line %d changed): offending line %q\n", res, what, filepath.Base(file), line+1, src)
		}
	}
	thorough := os.Getenv("VERIF_TIER") == "thorough"
	for _, f := range files {
		data, err := os.ReadFile(f)
		if err != nil {
			continue
		}
		lines := strings.Split(string(data), "\n")
		if r := hvC09Run(string(data)); r != "config" && r != "error" {
			report("unchanged file", f, 0, "", r)
		}
		evals++
		var assign []int
		for i, ln := range lines {
			t := strings.TrimSpace(ln)
			if t == "" || strings.HasPrefix(t, "#") || strings.HasPrefix(t, "[") || !strings.Contains(t, "=") {
				continue
			}
			assign = append(assign, i)
		}
		mutate := func(i int, repl string) []string {
			out := append([]string(nil), lines...)
			k := strings.Index(out[i], "=")
			out[i] = out[i][:k+1] + " " + repl
			return out
		}
		for _, i := range assign {
			for _, sp := range hvC09Spellings {
				m := mutate(i, sp)
				evals++
				if r := hvC09Run(strings.Join(m, "\n")); r != "config" && r != "error" {
					report("value replaced", f, i, m[i], r)
				}
			}
			// line deleted / duplicated
			del := append(append([]string(nil), lines[:i]...), lines[i+1:]...)
			evals++
			if r := hvC09Run(strings.Join(del, "\n")); r != "config" && r != "error" {
				report("line deleted", f, i, lines[i], r)
			}
			dup := append(append(append([]string(nil), lines[:i+1]...), lines[i]), lines[i+1:]...)
			evals++
			if r := hvC09Run(strings.Join(dup, "\n")); r != "config" && r != "error" {
				report("line duplicated", f, i, lines[i], r)
			}
		}
		if thorough {
			// two lines at once (first 40 assignment lines, a third of the spellings)
			lim := assign
			if len(lim) > 40 {
				lim = lim[:40]
			}
			for a := 0; a < len(lim); a++ {
				for b := a + 1; b < len(lim); b++ {
					for k := 0; k < len(hvC09Spellings); k += 3 {
						m := mutate(lim[a], hvC09Spellings[k])
						kb := strings.Index(m[lim[b]], "=")
						m[lim[b]] = m[lim[b]][:kb+1] + " " + hvC09Spellings[(k+7)%len(hvC09Spellings)]
						evals++
						if r := hvC09Run(strings.Join(m, "\n")); r != "config" && r != "error" {
							report("two values replaced", f, lim[a], m[lim[a]]+" / "+m[lim[b]], r)
						}
					}
				}
			}
		}
	}
	fmt.Printf("HV-BOUNDED evaluations=%d violations=%d bound=%q\n", evals, viol, fmt.Sprintf("every key = value line of the %d factory configurations x (%d value spellings of other TOML types + line deleted + line duplicated)", len(files), len(hvC09Spellings)))
	if viol > 0 {
		t.Fail()
	}
}
