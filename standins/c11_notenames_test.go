package config

// Bounded stand-in for C11 (labelled "bounded" in the evidence, never counted as proved):
// drives the REAL StringToNote / NoteToPitch / NoteToOctave over every string of length <= 2 over all 256 byte values
// and every string of length <= 5 over the alphabet below, and compares with the 128-name specification.
// It guards the one assumption the proof of StringToNote rests on (the contract assumed for the regular expression).

import (
	"fmt"
	"os"
	"strings"
	"testing"
)

func hvSpecNote(s string) (int, bool) {
	// letters A-G any case, optional # (C D F G A only), octave -2..8 written as -2,-1,0..8; value <= 127
	if len(s) < 2 {
		return 0, false
	}
	l := s[0]
	if l >= 'a' && l <= 'z' {
		l -= 32
	}
	base := map[byte]int{'C': 0, 'D': 2, 'E': 4, 'F': 5, 'G': 7, 'A': 9, 'B': 11}
	pc, ok := base[l]
	if !ok {
		return 0, false
	}
	rest := s[1:]
	if strings.HasPrefix(rest, "#") {
		if l == 'E' || l == 'B' {
			return 0, false
		}
		pc++
		rest = rest[1:]
	}
	oct := 0
	switch {
	case rest == "-2":
		oct = -2
	case rest == "-1":
		oct = -1
	case len(rest) == 1 && rest[0] >= '0' && rest[0] <= '8':
		oct = int(rest[0] - '0')
	default:
		return 0, false
	}
	n := (oct+2)*12 + pc
	if n > 127 {
		return 0, false
	}
	return n, true
}

func TestZZHvBoundedC11(t *testing.T) {
	evals := 0
	viol := 0
	check := func(s string) {
		evals++
		want, wok := hvSpecNote(s)
		got, err := func() (b byte, e error) {
			defer func() {
				if r := recover(); r != nil {
					e = fmt.Errorf("panic: %v", r)
					b = 255
				}
			}()
			return StringToNote(s)
		}()
		gok := err == nil
		if gok != wok || (gok && int(got) != want) {
			viol++
			if viol <= 5 {
				fmt.Printf("HV-VIOLATION input=%q spec=(%d,%v) code=(%d,%v)\n", s, want, wok, got, gok)
			}
		}
	}
	// all byte strings of length <= 2
	check("")
	for a := 0; a < 256; a++ {
		check(string([]byte{byte(a)}))
		for b := 0; b < 256; b++ {
			check(string([]byte{byte(a), byte(b)}))
		}
	}
	alpha := []byte("ABCDEFGHZabcdefghz#-0123456789 \n\t+.b\x00\xc3")
	var rec func(prefix []byte, depth int)
	rec = func(prefix []byte, depth int) {
		if len(prefix) >= 3 {
			check(string(prefix))
		}
		if depth == 0 {
			return
		}
		for _, c := range alpha {
			rec(append(prefix, c), depth-1)
		}
	}
	if os.Getenv("VERIF_TIER") == "thorough" {
		rec(nil, 5)
	} else {
		rec(nil, 4)
		alpha = []byte("CcEeH#-0129 ")
		rec(nil, 5)
	}
	// numbers -> names -> numbers
	for n := 0; n < 128; n++ {
		evals++
		name := fmt.Sprintf("%s%d", NoteToPitch(byte(n)), NoteToOctave(byte(n)))
		back, err := StringToNote(name)
		if err != nil || int(back) != n {
			viol++
			fmt.Printf("HV-VIOLATION input=%d name=%q back=(%d,%v)\n", n, name, back, err)
		}
		lower, err2 := StringToNote(strings.ToLower(name))
		if err2 != nil || int(lower) != n {
			viol++
			fmt.Printf("HV-VIOLATION input=%d lower-case name=%q back=(%d,%v)\n", n, strings.ToLower(name), lower, err2)
		}
	}
	fmt.Printf("HV-BOUNDED evaluations=%d violations=%d bound=%q\n", evals, viol, "all byte strings of length<=2; all strings of length 3..4 over a 37-symbol alphabet and of length 5 over 12 symbols (thorough: length 5 over 37 symbols); all 128 numbers in both letter cases")
	if viol > 0 {
		t.Fail()
	}
}
